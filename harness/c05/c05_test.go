// C05 — matching is bounded by timeout and buffer limit, never early, fails closed.
package c05

import (
	"fmt"
	"net"
	"strings"
	"sync"
	"testing"
	"time"

	"go.uber.org/zap"
	"pgregory.net/rapid"

	"github.com/mholt/caddy-l4/layer4"

	"verifharness/hx"
	"verifharness/rx"
)

func TestMain(m *testing.M) { hx.Main(m) }

const (
	earlySlack = 5 * time.Millisecond // "never early" tolerance (one-sided measurement)
)

func lateSlack(timeout time.Duration) time.Duration {
	return max(time.Second, timeout) // "not later than": generous, re-tried before it counts
}

type tcase struct {
	UDP      bool
	Timeout  time.Duration
	Phase    int // tenths of a wall-clock second at which the connection starts (-1: do not align)
	Schedule string
	Every    time.Duration // trickle interval
	Routes   string
	// FloodSizes: sizes of the datagrams a flooding UDP client sends, cyclically
	FloodSizes []int
	// InnerTimeout: matching timeout of the nested subroute (Routes == "subroute")
	InnerTimeout time.Duration
	ErrAfter     int
}

func (tc tcase) String() string {
	tr := "tcp"
	if tc.UDP {
		tr = "udp"
	}
	return fmt.Sprintf("%s timeout=%v phase=.%d schedule=%s/%v routes=%s inner=%v errAfter=%d floodSizes=%v", tr, tc.Timeout, tc.Phase, tc.Schedule, tc.Every, tc.Routes, tc.InnerTimeout, tc.ErrAfter, tc.FloodSizes)
}

var never = rx.M("verif_need", &rx.Need{N: 1 << 20, Pos: 0, Val: 1})
var neverPeek = rx.M("verif_need", &rx.Need{N: 1 << 20, Pos: 0, Val: 1, Peek: true})

func (tc tcase) routes() []rx.R {
	term := []map[string]any{rx.H("verif_term", "id", "HANDLER")}
	switch tc.Routes {
	case "never":
		return []rx.R{{Match: []map[string]any{never}, Handle: term}}
	case "never-peek":
		return []rx.R{{Match: []map[string]any{neverPeek}, Handle: term}}
	case "no+never":
		return []rx.R{{Match: []map[string]any{rx.M("verif_need", &rx.Need{N: 1, Pos: 0, Val: 0xEE})}, Handle: term}, {Match: []map[string]any{never}, Handle: term}}
	case "never-or-no":
		// one route, two OR'ed matcher sets: the first never decides, the second says no as soon as a byte is there;
		// the route is undecided for as long as its first set is
		return []rx.R{{Match: []map[string]any{never, rx.M("verif_need", &rx.Need{N: 1, Pos: 0, Val: 0xEE})}, Handle: term}}
	case "http":
		return []rx.R{{Match: []map[string]any{rx.M("http", []any{})}, Handle: term}}
	case "err":
		// (no further route here: a later route that is decidable earlier may legitimately run while this one is undecided)
		return []rx.R{{Match: []map[string]any{rx.M("verif_err", &rx.ErrMatcher{N: tc.ErrAfter})}, Handle: term}}
	case "err0+next":
		// the matcher fails at its first evaluation: the following match-all route must not run
		return []rx.R{{Match: []map[string]any{rx.M("verif_err", &rx.ErrMatcher{N: 0})}, Handle: term}, {Handle: []map[string]any{rx.H("verif_term", "id", "HANDLER2")}}}
	case "subroute":
		inner := []rx.R{{Match: []map[string]any{never}, Handle: term}}
		return []rx.R{{Handle: []map[string]any{rx.H("subroute", "routes", inner, "matching_timeout", tc.InnerTimeout.String()), rx.H("verif_term", "id", "AFTER")}}}
	case "nonterminal-then-never":
		// an earlier route matches at once and is non-terminal; matching then continues with an undecided route
		return []rx.R{{Handle: []map[string]any{rx.H("verif_take", "id", "NONTERMINAL", "k", 0)}}, {Match: []map[string]any{never}, Handle: term}}
	case "consume-then-never":
		// a non-terminal handler consumes part of the prefetched bytes, then matching continues with an undecided
		// route while the client floods: the bytes held for matching still obey the limit
		return []rx.R{{Match: []map[string]any{rx.M("verif_need", &rx.Need{N: 4000, Pos: 0, Val: 'f'})}, Handle: []map[string]any{rx.H("verif_take", "id", "NONTERMINAL", "k", 3000)}},
			{Match: []map[string]any{never}, Handle: term}}
	case "subroute-fallthrough-then-slow":
		// the nested list is decided "no" on bytes that are already buffered (no prefetch); the handler after the
		// subroute then reads data that arrives after the matching deadline
		inner := []rx.R{{Match: []map[string]any{rx.M("verif_need", &rx.Need{N: 1, Pos: 0, Val: 'q'})}, Handle: term}}
		return []rx.R{{Match: []map[string]any{rx.M("verif_need", &rx.Need{N: 1, Pos: 0, Val: 'x'})}, Handle: []map[string]any{
			rx.H("subroute", "routes", inner, "matching_timeout", tc.Timeout.String()), rx.H("verif_slow", "id", "SLOW", "sleep", (tc.Timeout + 150*time.Millisecond).String())}}}
	case "match-then-slow":
		return []rx.R{{Match: []map[string]any{rx.M("verif_need", &rx.Need{N: 1, Pos: 0, Val: 'x'})}, Handle: []map[string]any{rx.H("verif_slow", "id", "SLOW", "sleep", (tc.Timeout + 150*time.Millisecond).String())}}}
	}
	panic("unknown routes " + tc.Routes)
}

// effective timeout that bounds the matching of this case
func (tc tcase) effTimeout() time.Duration {
	if tc.Routes == "subroute" {
		return tc.InnerTimeout
	}
	return tc.Timeout
}

func genCase(t *rapid.T, thorough bool) tcase {
	maxT := 600
	if thorough {
		maxT = 2000
	}
	tc := tcase{UDP: rapid.IntRange(0, 2).Draw(t, "udp") == 0, Timeout: time.Duration(rapid.IntRange(150, maxT).Draw(t, "timeoutMs")) * time.Millisecond,
		Phase: rapid.IntRange(-1, 9).Draw(t, "phase")}
	tc.Schedule = []string{"silent", "trickle", "flood", "silent", "trickle"}[rapid.IntRange(0, 4).Draw(t, "schedule")]
	tc.Every = time.Duration(rapid.IntRange(2, 40).Draw(t, "everyMs")) * time.Millisecond
	kinds := []string{"never", "never-peek", "no+never", "http", "err", "err0+next", "subroute", "match-then-slow", "nonterminal-then-never", "subroute-fallthrough-then-slow", "consume-then-never", "never-or-no"}
	tc.Routes = kinds[rapid.IntRange(0, len(kinds)-1).Draw(t, "routes")]
	if tc.UDP && tc.Schedule != "flood" && rapid.IntRange(0, 3).Draw(t, "udpFlood") == 0 {
		tc.Schedule = "flood"
	}
	if tc.UDP && tc.Schedule == "flood" {
		tc.FloodSizes = rapid.SliceOfN(rapid.SampledFrom([]int{100, 1500, 2048, 2049, 5000, 9000}), 1, 3).Draw(t, "floodSizes")
		if rapid.Bool().Draw(t, "jumboAfterSmall") {
			// a partly filled buffer, then the largest datagram there is
			tc.FloodSizes = []int{rapid.SampledFrom([]int{100, 1500, 2049, 5000, 7000}).Draw(t, "smallFirst"), 9000}
		}
	}
	tc.InnerTimeout = time.Duration(rapid.IntRange(150, maxT).Draw(t, "innerMs")) * time.Millisecond
	tc.ErrAfter = rapid.IntRange(0, 40).Draw(t, "errAfter")
	if tc.Routes == "match-then-slow" || tc.Routes == "subroute-fallthrough-then-slow" {
		tc.Schedule = "match-then-late"
	}
	if tc.Routes == "consume-then-never" {
		tc.Schedule, tc.UDP = "flood", false
	}
	if tc.Routes == "err" && tc.Schedule == "silent" && tc.ErrAfter > 0 {
		tc.Schedule = "trickle"
	}
	return tc
}

type outcome struct {
	start, end time.Time
	pulled     int
	events     []rx.Event
	closed     bool
	readerGot  int
	fed        int
	note       string
	hung       bool
}

// watch runs f and reports whether it returned within the time any correct
// implementation needs for this case (timeouts, handler sleeps and slack).
func watch(f func(), tc tcase) bool {
	done := make(chan struct{})
	go func() { defer close(done); f() }()
	budget := 2*(tc.Timeout+tc.InnerTimeout) + 4*time.Second
	select {
	case <-done:
		return true
	case <-time.After(budget):
		return false
	}
}

// sleepToPhase waits until the wall clock's fractional second is phase/10.
func sleepToPhase(phase int) {
	if phase < 0 {
		return
	}
	now := time.Now()
	target := time.Duration(phase) * 100 * time.Millisecond
	frac := time.Duration(now.Nanosecond())
	d := target - frac
	if d < 0 {
		d += time.Second
	}
	time.Sleep(d)
}

// provisioning goes through one caddy.Context, which is not safe for concurrent use
var provMu sync.Mutex

func runCase(tc tcase) outcome {
	var out outcome
	provMu.Lock()
	rl, err := rx.Routes(rx.BareCtx(), tc.routes())
	var srv *layer4.Server
	if err == nil && !tc.UDP {
		srv, err = rx.Server(rx.BareCtx(), tc.routes(), tc.Timeout)
	}
	provMu.Unlock()
	if err != nil {
		out.note = "provision: " + err.Error()
		return out
	}
	tr := rx.NewTrace()
	tr.TermLimit = 4096
	tr.TermDeadline = 3 * time.Second
	if tc.Schedule == "match-then-late" {
		// the slow handler must not arm a deadline of its own (it would hide a leaked matching deadline);
		// it stops after the five bytes "x" + "LATE"
		tr.TermLimit, tr.TermDeadline = 5, 0
	}
	stop := make(chan struct{})
	var feeder sync.WaitGroup
	payload := func(i int) []byte {
		if tc.Schedule == "match-then-late" {
			return []byte("x")
		}
		return []byte{byte('a' + i%20)} // never a newline, never 0xEE
	}
	if tc.UDP {
		fpc := hx.NewFakePacketConn()
		vpc := layer4.VerifNewPacketConn(fpc, &net.UDPAddr{IP: net.IPv4(10, 0, 0, 9), Port: 7777})
		h := rl.Compile(zap.NewNop(), tc.Timeout, rx.Fallback{})
		cx := layer4.WrapConnection(vpc.Real(), make([]byte, 0, 2048), zap.NewNop())
		rx.Bind(cx, tr)
		sleepToPhase(tc.Phase)
		feeder.Add(1)
		go func() {
			defer feeder.Done()
			feedSchedule(tc, stop, func(b []byte) {
				if vpc.TryFeed(b) {
					out.fed += len(b)
				}
			}, payload)
		}()
		out.start = time.Now()
		if !watch(func() { _ = h.Handle(cx) }, tc) {
			out.hung = true
		}
		out.end = time.Now()
		close(stop)
		feeder.Wait() // the feeder never blocks (TryFeed); only then is the association closed, as the server loop would
		vpc.DrainCloseNotifications()
		_ = vpc.Close()
		out.pulled = cx.VerifBufLen()
		out.closed = true
	} else {
		under := hx.NewScriptConn(nil, hx.EndSilentReal)
		under.Remote = &tagAddr{under.Remote, fmt.Sprintf("#%p", under)}
		rx.Register(under.Remote.String(), tr)
		defer rx.Unregister(under.Remote.String())
		sleepToPhase(tc.Phase)
		feeder.Add(1)
		go func() {
			defer feeder.Done()
			if tc.Schedule == "flood" {
				under.Refill = func() []byte { return []byte(strings.Repeat("f", 1500)) }
				under.Push([]byte("f"))
				return
			}
			feedSchedule(tc, stop, func(b []byte) { under.Push(b); out.fed += len(b) }, payload)
		}()
		out.start = time.Now()
		if !watch(func() { srv.VerifHandle(under) }, tc) { // Server.handle: closes the connection when routing returns
			out.hung = true
			_ = under.Close()
		}
		out.end = time.Now()
		close(stop)
		feeder.Wait()
		_, out.pulled, _ = under.Snapshot()
		out.closed = under.IsClosed()
	}
	out.events = tr.Snapshot()
	for _, e := range out.events {
		out.readerGot += len(e.Data)
	}
	return out
}

type tagAddr struct {
	net.Addr
	tag string
}

func (a *tagAddr) String() string { return a.Addr.String() + a.tag }

func feedSchedule(tc tcase, stop chan struct{}, feed func([]byte), payload func(int) []byte) {
	switch tc.Schedule {
	case "silent":
	case "trickle":
		for i := 0; ; i++ {
			select {
			case <-stop:
				return
			case <-time.After(tc.Every):
			}
			if i > 4000 {
				return
			}
			feed(payload(i))
		}
	case "flood":
		for i := 0; i < 40; i++ { // UDP: datagrams of 1500 bytes as fast as the connection takes them
			select {
			case <-stop:
				return
			default:
			}
			n := 1500
			if len(tc.FloodSizes) > 0 {
				n = tc.FloodSizes[i%len(tc.FloodSizes)] // UDP: datagrams of several sizes, up to the largest the socket reader takes
			}
			feed([]byte(strings.Repeat("f", n)))
		}
	case "match-then-late":
		feed([]byte("x"))
		select {
		case <-stop:
			return
		case <-time.After(tc.Timeout + 60*time.Millisecond): // after the matching deadline has passed
		}
		feed([]byte("LATE"))
	}
}

// judge returns a finding key and message, or "".
func judge(tc tcase, o outcome) (string, string) {
	if o.note != "" {
		return "harness", o.note
	}
	el := o.end.Sub(o.start)
	if o.hung {
		return "late", fmt.Sprintf("matching was still running %v after the connection started (matching timeout %v): it is not bounded by the timeout\n  %s", el, tc.effTimeout(), tc)
	}
	handlerRan := len(o.events) > 0
	desc := fmt.Sprintf("%s: routing returned after %v, pulled/buffered %d bytes, fed %d, closed=%v, events=%d", tc, el, o.pulled, o.fed, o.closed, len(o.events))
	if tc.Schedule == "match-then-late" {
		// (e) once a route matched the deadline no longer limits its handlers
		got := ""
		for _, e := range o.events {
			got += string(e.Data)
		}
		if !strings.Contains(got, "LATE") {
			return "deadline-limits-handler", "a handler that reads after the matching deadline did not get the data the client sent then (got " + fmt.Sprintf("%q", got) + ")\n  " + desc
		}
		return "", ""
	}
	// which way may matching end?
	limit := layer4.MaxMatchingBytes + layer4.VerifPrefetchChunkSize
	if o.pulled > limit && tc.Routes != "err" {
		return "buffer-limit", fmt.Sprintf("matching buffered %d bytes, the limit is %d + one chunk of %d\n  %s", o.pulled, layer4.MaxMatchingBytes, layer4.VerifPrefetchChunkSize, desc)
	}
	if tc.Routes == "nonterminal-then-never" || tc.Routes == "consume-then-never" {
		handlerRan = false
		for _, e := range o.events {
			if e.ID != "NONTERMINAL" {
				handlerRan = true
			}
		}
	}
	if handlerRan {
		ids := []string{}
		for _, e := range o.events {
			ids = append(ids, e.Kind+"/"+e.ID)
		}
		return "handler-after-failed-matching", fmt.Sprintf("matching cannot succeed in this case, yet %v ran (a connection whose matching ends by timeout, buffer exhaustion or matcher error must have no further handler invoked)\n  %s", ids, desc)
	}
	if !o.closed {
		return "not-closed", "the connection was not closed after matching failed\n  " + desc
	}
	eff := tc.effTimeout()
	bufferMayFill := tc.Schedule == "flood" || (tc.Schedule == "trickle" && tc.UDP && false)
	endsByError := tc.Routes == "err0+next" || (tc.Routes == "err" && (tc.ErrAfter == 0 || tc.Schedule != "silent"))
	// (a) not later than the timeout (+ slack), however many bytes were trickled
	if el > eff+lateSlack(eff) {
		return "late", fmt.Sprintf("matching took %v with a matching timeout of %v\n  %s", el, eff, desc)
	}
	// (d) never early: while a route is undecided, the buffer is not full and the client has not closed
	if !bufferMayFill && !endsByError && el < eff-earlySlack {
		return "early", fmt.Sprintf("matching was abandoned after %v, before the matching timeout of %v had elapsed, although a route was still undecided\n  %s", el, eff, desc)
	}
	return "", ""
}

func TestBounds(t *testing.T) {
	thorough := hx.Tier() == "thorough"
	rapid.Check(t, func(rt *rapid.T) {
		n := 16
		cases := make([]tcase, n)
		for i := range cases {
			cases[i] = genCase(rt, thorough)
		}
		outs := make([]outcome, n)
		var wg sync.WaitGroup
		for i := range cases {
			wg.Add(1)
			go func(i int) {
				defer wg.Done()
				outs[i] = runCase(cases[i])
			}(i)
		}
		wg.Wait()
		for i, tc := range cases {
			key, msg := judge(tc, outs[i])
			if key == "late" || key == "buffer-limit" {
				// timing upper bounds count only if they reproduce in isolation, three times
				again := 0
				for r := 0; r < 3; r++ {
					if k, _ := judge(tc, runCase(tc)); k == key {
						again++
					}
				}
				if again < 3 {
					hx.Class("C05/upper-bound-not-reproduced", 1)
					key = ""
				}
			}
			if key != "" {
				hx.Fail(rt, "C05", key+"/"+transport(tc), "%s", msg)
				return
			}
			nontrivial := tc.Timeout%time.Second != 0 || tc.Phase > 0 || tc.Schedule != "silent"
			hx.Case(hx.Hash(tc.String()), nontrivial, "C05/"+transport(tc), "C05/routes/"+tc.Routes, "C05/schedule/"+tc.Schedule)
			if nontrivial {
				hx.Sample(transport(tc)+tc.Routes, map[string]any{"case": tc.String(), "elapsed": outs[i].end.Sub(outs[i].start).String(), "buffered": outs[i].pulled})
			}
		}
	})
}

func transport(tc tcase) string {
	if tc.UDP {
		return "udp"
	}
	return "tcp"
}
