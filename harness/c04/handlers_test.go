package c04

import (
	"encoding/hex"
	"encoding/json"
	"os"
	"path/filepath"
	"testing"
	"time"

	"go.uber.org/zap"
	"pgregory.net/rapid"

	"github.com/mholt/caddy-l4/layer4"

	"verifharness/hx"
	"verifharness/mx"
	"verifharness/rx"
)

type htarget struct {
	name   string
	routes []rx.R
	gen    func(*rapid.T) []byte
	tls    bool
}

func handlerTargets() []htarget {
	users := [][2]string{{"bob", "secret"}, {"alice", ""}}
	return []htarget{
		{name: "proxy_protocol", routes: []rx.R{{Handle: []map[string]any{rx.H("proxy_protocol"), rx.H("verif_term", "id", "t")}}}, gen: mx.GenProxyProto},
		{name: "proxy_protocol+allow", routes: []rx.R{{Handle: []map[string]any{rx.H("proxy_protocol", "allow", []string{"192.168.0.0/16"}, "timeout", "1s"), rx.H("verif_term", "id", "t")}}}, gen: mx.GenProxyProto},
		{name: "socks5", routes: []rx.R{{Handle: []map[string]any{rx.H("socks5", "commands", []string{"CONNECT"})}}},
			gen: func(t *rapid.T) []byte { return mx.GenSocks5Session(t, nil, [4]byte{127, 0, 0, 1}, 1) }},
		{name: "socks5+creds", routes: []rx.R{{Handle: []map[string]any{rx.H("socks5", "credentials", map[string]string{"bob": "secret", "alice": ""})}}},
			gen: func(t *rapid.T) []byte { return mx.GenSocks5Session(t, users, [4]byte{127, 0, 0, 1}, 1) }},
		{name: "tls", tls: true, routes: []rx.R{{Handle: []map[string]any{rx.H("tls"), rx.H("verif_term", "id", "t")}}}, gen: mx.GenTLS},
		{name: "subroute+matchers", routes: []rx.R{{Handle: []map[string]any{rx.H("subroute", "matching_timeout", "1s", "routes", []rx.R{
			{Match: []map[string]any{rx.M("postgres", map[string]any{})}, Handle: []map[string]any{rx.H("verif_term", "id", "pg")}},
			{Match: []map[string]any{rx.M("rdp", map[string]any{}), rx.M("winbox", map[string]any{})}, Handle: []map[string]any{rx.H("verif_term", "id", "rw")}},
			{Match: []map[string]any{rx.M("http", []any{})}, Handle: []map[string]any{rx.H("verif_term", "id", "http")}},
		})}}}, gen: func(t *rapid.T) []byte {
			g := []mx.Gen{mx.GenPostgres, mx.GenRDP, mx.GenWinbox, mx.GenHTTP1, mx.GenH2}[rapid.IntRange(0, 4).Draw(t, "g")]
			return g(t)
		}},
	}
}

// runHandler pushes the input through the compiled route list over a scripted
// connection (generated segmentation) and applies the C04 oracle.
func runHandler(t hx.TB, ht htarget, h layer4.Handler, in []byte, cuts []int, class string) {
	journalInput("handler/"+ht.name, in)
	var perr any
	var herr error
	alloc := measure(func() {
		func() {
			defer func() { perr = recover() }()
			under := hx.NewScriptConn(hx.Split(in, cuts), hx.EndEOF)
			under.Local, under.Remote = mx.TCPLocal, mx.TCPRemote
			cx := layer4.WrapConnection(under, make([]byte, 0, layer4.VerifPrefetchChunkSize), zap.NewNop())
			tr := rx.NewTrace()
			tr.TermLimit = 1 << 16
			rx.Bind(cx, tr)
			herr = h.Handle(cx)
		}()
	})
	if perr != nil {
		hx.Fail(t, "C04", "panic/handler/"+ht.name, "handler chain %s panicked: %v\ninput(%d)=%s cuts=%v", ht.name, perr, len(in), hex.EncodeToString(clip(in, 600)), cuts)
		return
	}
	limit := uint64(allocLimit)
	if ht.tls {
		limit *= 2 // certificate selection, handshake transcript and key schedule of crypto/tls itself
	}
	if alloc > limit {
		hx.Fail(t, "C04", "alloc/handler/"+ht.name, "handler chain %s allocated %d bytes (> %d) on a %d-byte input\ninput=%s", ht.name, alloc, limit, len(in), hex.EncodeToString(clip(in, 600)))
		return
	}
	outcome := "ok"
	if herr != nil {
		outcome = "error"
	}
	nontrivial := class != "noise"
	hx.Case(hx.Hash("handler", ht.name, in, cuts), nontrivial, "C04/handler/"+ht.name, "C04/handler-outcome/"+outcome, "C04/"+class)
	if nontrivial {
		hx.Sample("handler/"+ht.name, map[string]any{"handler": ht.name, "len": len(in), "cuts": cuts, "input_hex": hex.EncodeToString(clip(in, 48)), "outcome": outcome})
	}
}

func TestHandlersNoPanicBoundedAlloc(t *testing.T) {
	for _, ht := range handlerTargets() {
		ht := ht
		ctx := rx.BareCtx()
		if ht.tls {
			var err error
			if ctx, err = rx.TLSCtx(); err != nil {
				t.Fatalf("tls ctx: %v", err)
			}
		}
		rl, err := rx.Routes(ctx, ht.routes)
		if err != nil {
			t.Fatalf("%s: %v", ht.name, err)
		}
		h := rx.Compile(rl, 200*time.Millisecond, false)
		t.Run(ht.name, func(t *testing.T) {
			// warm up lazily initialised state so that it is not billed to the first input
			runWarm(ht, h)
			rapid.Check(t, func(rt *rapid.T) {
				var in []byte
				class := "well-formed-boundary"
				switch rapid.IntRange(0, 4).Draw(rt, "kind") {
				case 0:
					in, class = rapid.SliceOfN(rapid.Byte(), 0, 200).Draw(rt, "noise"), "noise"
				case 1, 2:
					in = ht.gen(rt)
				case 3:
					in, class = mx.Mutate(rt, ht.gen(rt)), "mutated"
				default:
					in = ht.gen(rt)
					if len(in) > 0 {
						in, class = in[:rapid.IntRange(0, len(in)).Draw(rt, "cut")], "truncated"
					}
				}
				cuts := rapid.SliceOfN(rapid.IntRange(1, 64), 0, 3).Draw(rt, "cuts")
				for i := 1; i < len(cuts); i++ {
					cuts[i] += cuts[i-1]
				}
				runHandler(rt, ht, h, in, cuts, class)
			})
		})
	}
}

func runWarm(ht htarget, h layer4.Handler) {
	defer func() { _ = recover() }()
	for i := 0; i < 2; i++ {
		under := hx.NewScriptConn([][]byte{[]byte("GET / HTTP/1.1\r\n\r\n")}, hx.EndEOF)
		under.Local, under.Remote = mx.TCPLocal, mx.TCPRemote
		cx := layer4.WrapConnection(under, make([]byte, 0, 2048), zap.NewNop())
		_ = h.Handle(cx)
	}
}

// ---- replay tier: every minimised input ever found, bypassing rapid ----

type replayCase struct {
	Matcher  string `json:"matcher"`
	Cfg      string `json:"cfg"`
	UDP      bool   `json:"udp"`
	InputHex string `json:"input_hex"`
	Note     string `json:"note"`
}

func TestReplay(t *testing.T) {
	dir := os.Getenv("VERIF_DIR")
	if dir == "" {
		dir = "/verif"
	}
	files, _ := filepath.Glob(filepath.Join(dir, "replays", "C04", "*.json"))
	for _, f := range files {
		b, err := os.ReadFile(f)
		if err != nil {
			t.Fatal(err)
		}
		var rc replayCase
		if err := json.Unmarshal(b, &rc); err != nil {
			t.Fatalf("%s: %v", f, err)
		}
		in, err := hex.DecodeString(rc.InputHex)
		if err != nil {
			t.Fatalf("%s: %v", f, err)
		}
		m, err := mx.NewMatcher(rc.Matcher, rc.Cfg)
		if err != nil {
			t.Fatalf("%s: %v", f, err)
		}
		tg := target{name: rc.Matcher, cfg: rc.Cfg, udp: rc.UDP}
		checkInput(t, tg, m, in, "replay")
		// and every proper prefix of it
		for i := 0; i < len(in); i++ {
			checkInput(t, tg, m, in[:i], "replay-prefix")
		}
	}
	hx.Class("C04/replay-files", int64(len(files)))
}
