package c04

import (
	"sync"
	"testing"

	"github.com/mholt/caddy-l4/layer4"

	"verifharness/mx"
)

var (
	fuzzOnce     sync.Once
	fuzzTargets  []target
	fuzzMatchers []layer4.ConnMatcher
)

func fuzzSetup() {
	fuzzOnce.Do(func() {
		mx.LoadQUICSamples()
		for _, tg := range targets() {
			if tg.slow {
				continue
			}
			fuzzTargets = append(fuzzTargets, tg)
			fuzzMatchers = append(fuzzMatchers, mx.MustMatcher(tg.name, tg.cfg))
		}
	})
}

// FuzzMatchers: coverage-guided bytes -> (target selector, input). The oracle
// is the same checkInput as the rapid properties (no panic, bounded allocation).
func FuzzMatchers(f *testing.F) {
	fuzzSetup()
	seeds := [][]byte{
		mx.PgSSLRequest(), mx.PgStartup(3, 0, [][2]string{{"user", "u"}}, true, -1),
		mx.RDPWrap(mx.RDPPayload(mx.RDPParts{Cookie: "user", NegReq: true, Protocols: 3})),
		mx.Winbox("admin", false, make([]byte, 32), 1), mx.Winbox(string(make([]byte, 221)), true, make([]byte, 32), 0),
		mx.HTTP1("GET", "/", "1.1", [][2]string{{"Host", "a.example.com"}}, true, ""),
		mx.H2Prior("GET", "https", "a.example.com", "/", nil, 1),
		mx.Socks4(4, 1, 80, [4]byte{10, 0, 0, 1}, "u"), mx.Socks5(5, []byte{0, 2}),
		mx.WGInitiation(1, []byte{7}), mx.WGTransport(4, 1, 0, make([]byte, 16)),
		mx.OVPNPlain(7, 0, 99, 0, 0), mx.OVPNTCP(mx.OVPNPlain(7, 0, 99, 0, 0)),
		[]byte("PROXY TCP4 1.2.3.4 5.6.7.8 1 2\r\n"), mx.SSH("2.0", "x", ""), mx.XMPP("a", true),
		{0x00, 0x00, 0x00, 0x04}, {0x03, 0x00, 0x00, 0x0c, 0x07, 0xe0, 0, 0, 0, 0, 0, 0x0d}, {0xff, 0x06},
	}
	for i := range fuzzTargets {
		for _, s := range seeds {
			f.Add(uint8(i), s)
		}
	}
	f.Fuzz(func(t *testing.T, sel uint8, data []byte) {
		if len(data) > 10240 {
			data = data[:10240]
		}
		i := int(sel) % len(fuzzTargets)
		checkInput(t, fuzzTargets[i], fuzzMatchers[i], data, "fuzz")
	})
}
