// C04 — no remote input makes a matcher or a parsing handler panic or
// allocate without bound.
package c04

import (
	"encoding/hex"
	"fmt"
	"go.uber.org/zap"
	"os"
	"runtime"
	"testing"

	"pgregory.net/rapid"

	"github.com/mholt/caddy-l4/layer4"

	"verifharness/hx"
	"verifharness/mx"
)

func TestMain(m *testing.M) { hx.Main(m) }

// allocLimit is "a small multiple of the matching buffer limit": 32 x 8 KiB.
const allocLimit = 32 * 8 * 1024

type target struct {
	name string // matcher module name
	cfg  string
	udp  bool
	gens []mx.Gen
	// slow matchers (QUIC spins up a listener per attempt) get fewer cases
	slow bool
}

func (tg target) label() string {
	k := "tcp"
	if tg.udp {
		k = "udp"
	}
	return fmt.Sprintf("%s/%s/%s", tg.name, k, tg.cfg)
}

var allGens = []mx.Gen{mx.GenSSH, mx.GenXMPP, mx.GenPostgres, mx.GenSocks4, mx.GenSocks5, mx.GenProxyProto,
	mx.GenDNSTCP, mx.GenDNSUDP, mx.GenRDP, mx.GenWireGuard, mx.GenWinbox, mx.GenHTTP1, mx.GenH2, mx.GenTLS,
	mx.GenOVPNTCP, mx.GenOVPNUDP}

var ovpnKeyHex = hex.EncodeToString(mx.OVPNKey.KeyBytes)

func targets() []target {
	g := func(gs ...mx.Gen) []mx.Gen { return gs }
	ts := []target{
		{name: "ssh", gens: g(mx.GenSSH)},
		{name: "xmpp", gens: g(mx.GenXMPP)},
		{name: "postgres", gens: g(mx.GenPostgres)},
		{name: "socks4", gens: g(mx.GenSocks4)},
		{name: "socks4", cfg: `{"commands":["CONNECT"],"ports":[80,443],"networks":["10.0.0.0/8","192.168.1.1"]}`, gens: g(mx.GenSocks4)},
		{name: "socks5", gens: g(mx.GenSocks5)},
		{name: "socks5", cfg: `{"auth_methods":[0,2,128]}`, gens: g(mx.GenSocks5)},
		{name: "socks5", cfg: `{"auth_methods":[1,2]}`, gens: g(mx.GenSocks5)},
		{name: "proxy_protocol", gens: g(mx.GenProxyProto)},
		{name: "regexp", cfg: `{"pattern":"^GET","count":3}`, gens: g(mx.GenHTTP1)},
		{name: "regexp", cfg: `{"pattern":"(a|b)*c$","count":8192}`, gens: g(mx.GenHTTP1)},
		{name: "regexp", cfg: `{"pattern":".","count":65535}`, gens: g(mx.GenHTTP1)},
		{name: "dns", gens: g(mx.GenDNSTCP)},
		{name: "dns", udp: true, gens: g(mx.GenDNSUDP)},
		{name: "dns", cfg: `{"allow":[{"name_regexp":"^a","type":"A"}],"deny":[{"class":"CH"},{"name_regexp":"x"}],"default_deny":true}`, gens: g(mx.GenDNSTCP)},
		{name: "dns", udp: true, cfg: `{"deny":[{"type_regexp":"^(MX|NS)$"}],"prefer_allow":true,"allow":[{"name":"a.b."}]}`, gens: g(mx.GenDNSUDP)},
		{name: "rdp", gens: g(mx.GenRDP)},
		{name: "rdp", cfg: `{"cookie_hash_regexp":"^[a-z]"}`, gens: g(mx.GenRDP)},
		{name: "rdp", cfg: `{"cookie_ips":["10.0.0.0/8","127.0.0.1"],"cookie_ports":[3389,1]}`, gens: g(mx.GenRDP)},
		{name: "rdp", cfg: `{"custom_info_regexp":"="}`, gens: g(mx.GenRDP)},
		{name: "wireguard", udp: true, gens: g(mx.GenWireGuard)},
		{name: "wireguard", udp: true, cfg: `{"zero":4285988864}`, gens: g(mx.GenWireGuard)},
		{name: "wireguard", gens: g(mx.GenWireGuard)},
		{name: "openvpn", gens: g(mx.GenOVPNTCP)},
		{name: "openvpn", udp: true, gens: g(mx.GenOVPNUDP)},
		{name: "openvpn", cfg: `{"modes":["auth","crypt"],"group_key":"` + ovpnKeyHex + `","ignore_timestamp":true}`, gens: g(mx.GenOVPNTCP)},
		{name: "openvpn", udp: true, cfg: `{"modes":["auth"],"group_key":"` + ovpnKeyHex + `","auth_digest":"SHA-1","group_key_direction":"normal"}`, gens: g(mx.GenOVPNUDP)},
		{name: "openvpn", udp: true, cfg: `{"modes":["crypt2"],"ignore_crypto":true}`, gens: g(mx.GenOVPNUDP)},
		{name: "winbox", gens: g(mx.GenWinbox)},
		{name: "winbox", cfg: `{"modes":["standard"],"username_regexp":"^a"}`, gens: g(mx.GenWinbox)},
		{name: "winbox", cfg: `{"modes":["romon"],"username":"admin"}`, gens: g(mx.GenWinbox)},
		{name: "http", cfg: `[]`, gens: g(mx.GenHTTP1, mx.GenH2)},
		{name: "http", cfg: `[{"host":["a.example.com"]},{"path":["/x/*"],"method":["GET"]}]`, gens: g(mx.GenHTTP1, mx.GenH2)},
		{name: "http", cfg: `[{"header":{"X-A":["*"]},"protocol":"http"}]`, gens: g(mx.GenHTTP1, mx.GenH2)},
		{name: "tls", gens: g(mx.GenTLS)},
		{name: "tls", cfg: `{"sni":["example.com","*.example.org"],"alpn":["h2"]}`, gens: g(mx.GenTLS)},
		{name: "quic", udp: true, gens: g(mx.GenQUIC), slow: true},
		{name: "quic", gens: g(mx.GenQUIC)},
		{name: "quic", udp: true, cfg: `{"sni":["a.example.com"]}`, gens: g(mx.GenQUIC), slow: true},
		{name: "quic", udp: true, cfg: `{"alpn":["h3"]}`, gens: g(mx.GenQUIC), slow: true},
		{name: "not", cfg: `[{"ssh":{}},{"postgres":{},"tls":{}}]`, gens: g(mx.GenSSH, mx.GenPostgres, mx.GenTLS)},
		{name: "not", cfg: `[{"rdp":{},"winbox":{}}]`, gens: g(mx.GenRDP, mx.GenWinbox)},
		{name: "local_ip", cfg: `{"ranges":["10.0.0.0/8"]}`, gens: g(mx.GenSSH)},
		{name: "remote_ip", cfg: `{"ranges":["192.168.0.0/16","::1"]}`, gens: g(mx.GenSSH)},
		{name: "clock", cfg: `{"after":"01:00:00","before":"23:00:00","timezone":"+02"}`, gens: g(mx.GenSSH)},
	}
	return ts
}

func measure(f func()) uint64 {
	var a, b runtime.MemStats
	runtime.ReadMemStats(&a)
	f()
	runtime.ReadMemStats(&b)
	return b.TotalAlloc - a.TotalAlloc
}

// journal the input before the call: a fatal out-of-memory cannot be recovered,
// so the driver must be able to find the input of a dead worker.
var journal = func() *os.File {
	if p := os.Getenv("VERIF_STATS"); p != "" {
		f, _ := os.Create(p + ".journal")
		return f
	}
	return nil
}()

func journalInput(label string, in []byte) {
	if journal != nil {
		_, _ = journal.WriteAt([]byte(fmt.Sprintf("%-120s %s\n", label, hex.EncodeToString(clip(in, 4096)))), 0)
	}
}

func clip(b []byte, n int) []byte {
	if len(b) > n {
		return b[:n]
	}
	return b
}

// checkInput is the oracle shared by the rapid properties, the replay table and the fuzz target.
func checkInput(t hx.TB, tg target, m mxMatcher, in []byte, class string) {
	journalInput(tg.label(), in)
	var res mx.Result
	alloc := measure(func() { res = mx.Eval(m, in, nil, tg.udp, false) })
	if res.V == mx.Panicked {
		hx.Fail(t, "C04", "panic/"+tg.name, "matcher %s panicked: %v\ninput(%d)=%s", tg.label(), res.Panic, len(in), hex.EncodeToString(clip(in, 600)))
		return
	}
	if alloc > allocLimit {
		// re-measure: take the minimum of three
		for i := 0; i < 2 && alloc > allocLimit; i++ {
			if a := measure(func() { _ = mx.Eval(m, in, nil, tg.udp, false) }); a < alloc {
				alloc = a
			}
		}
		base := benign(tg, m)
		if alloc > allocLimit+base {
			hx.Fail(t, "C04", "alloc/"+tg.name, "matcher %s allocated %d bytes (> %d + benign %d) on a %d-byte input\ninput=%s",
				tg.label(), alloc, allocLimit, base, len(in), hex.EncodeToString(clip(in, 600)))
			return
		}
	}
	nontrivial := class != "noise"
	hx.Case(hx.Hash(tg.label(), in), nontrivial, "C04/"+class, "C04/verdict/"+res.V.String(), "C04/matcher/"+tg.name)
	if nontrivial {
		hx.Sample(tg.name+"/"+class, map[string]any{"matcher": tg.label(), "class": class, "len": len(in), "input_hex": hex.EncodeToString(clip(in, 48)), "verdict": res.V.String()})
	}
}

type mxMatcher = layer4.ConnMatcher

var benignCache = map[string]uint64{}

// benign is the matcher's allocation on a harmless input (QUIC, for example,
// builds a listener per attempt whatever the input is).
func benign(tg target, m mxMatcher) uint64 {
	if v, ok := benignCache[tg.label()]; ok {
		return v
	}
	in := []byte("GET / HTTP/1.1\r\nHost: x\r\n\r\n")
	if tg.name == "quic" && len(mx.QUICInitials) > 0 {
		in = mx.QUICInitials[0]
	}
	best := ^uint64(0)
	for i := 0; i < 3; i++ {
		if a := measure(func() { _ = mx.Eval(m, in, nil, tg.udp, false) }); a < best {
			best = a
		}
	}
	benignCache[tg.label()] = best
	return best
}

func drawInput(t *rapid.T, tg target) ([]byte, string) {
	switch k := rapid.IntRange(0, 10).Draw(t, "inputKind"); {
	case k == 10:
		return mx.GenLines(t), "short-lines"
	case k == 0:
		return rapid.SliceOfN(rapid.Byte(), 0, 300).Draw(t, "noise"), "noise"
	case k == 1:
		g := allGens[rapid.IntRange(0, len(allGens)-1).Draw(t, "otherGen")]
		return mx.Mutate(t, g(t)), "cross-protocol"
	case k <= 5:
		g := tg.gens[rapid.IntRange(0, len(tg.gens)-1).Draw(t, "gen")]
		return g(t), "well-formed-boundary"
	case k <= 7:
		g := tg.gens[rapid.IntRange(0, len(tg.gens)-1).Draw(t, "gen")]
		return mx.Mutate(t, g(t)), "mutated"
	default:
		g := tg.gens[rapid.IntRange(0, len(tg.gens)-1).Draw(t, "gen")]
		msg := g(t)
		if len(msg) == 0 {
			return msg, "truncated"
		}
		return msg[:rapid.IntRange(0, len(msg)).Draw(t, "cut")], "truncated"
	}
}

func TestMatchersNoPanicBoundedAlloc(t *testing.T) {
	mx.LoadQUICSamples()
	for _, tg := range targets() {
		tg := tg
		m, err := mx.NewMatcher(tg.name, tg.cfg)
		if err != nil {
			t.Fatalf("provision %s: %v", tg.label(), err)
		}
		t.Run(tg.label(), func(t *testing.T) {
			n := 0
			rapid.Check(t, func(rt *rapid.T) {
				if tg.slow {
					n++
					if n > 60 {
						return
					}
				}
				in, class := drawInput(rt, tg)
				checkInput(rt, tg, m, in, class)
			})
		})
	}
}

// A connection is shown to the matchers of several routes, one after the other. Whatever a matcher keeps about the
// connection (the http matcher keeps the parsed request, others may keep more) must not make a later one panic.
func TestSeveralMatchersOneConnection(t *testing.T) {
	mx.LoadQUICSamples()
	tgs := targets()
	ms := make([]mxMatcher, len(tgs))
	for i, tg := range tgs {
		m, err := mx.NewMatcher(tg.name, tg.cfg)
		if err != nil {
			t.Fatalf("provision %s: %v", tg.label(), err)
		}
		ms[i] = m
	}
	byName := map[string][]int{}
	for i, tg := range tgs {
		byName[tg.name] = append(byName[tg.name], i)
	}
	quicRuns := 0
	rapid.Check(t, func(rt *rapid.T) {
		first := rapid.IntRange(0, len(tgs)-1).Draw(rt, "first")
		// routes that tell QUIC clients apart (by server name, by ALPN) all consult a quic matcher: a share of the
		// cases is reserved for them, as the matcher is too slow to get there by chance
		quicCase := quicRuns < 150 && rapid.IntRange(0, 5).Draw(rt, "quicCase") == 0
		if quicCase {
			q := byName["quic"]
			first = q[rapid.IntRange(0, len(q)-1).Draw(rt, "quicFirst")]
		}
		seq := []int{first}
		for i := rapid.IntRange(1, 3).Draw(rt, "more"); i > 0; i-- {
			if same := byName[tgs[first].name]; quicCase || rapid.Bool().Draw(rt, "sameKind") {
				seq = append(seq, same[rapid.IntRange(0, len(same)-1).Draw(rt, "sameIdx")])
			} else {
				seq = append(seq, rapid.IntRange(0, len(tgs)-1).Draw(rt, "otherIdx"))
			}
		}
		for _, i := range seq {
			if tgs[i].name == "quic" {
				quicRuns++
				if quicRuns > 150 {
					return // each attempt spins up a QUIC listener
				}
				break
			}
		}
		in, class := drawInput(rt, tgs[first])
		var labels []string
		for _, i := range seq {
			labels = append(labels, tgs[i].label())
		}
		journalInput(fmt.Sprint(labels), in)
		under := hx.NewScriptConn(nil, hx.EndEOF)
		if tgs[first].udp {
			under.Local, under.Remote = mx.UDPLocal, mx.UDPRemote
		} else {
			under.Local, under.Remote = mx.TCPLocal, mx.TCPRemote
		}
		cx := layer4.VerifNewConnection(under, in, zap.NewNop())
		for k, i := range seq {
			var pan any
			func() {
				defer func() { pan = recover() }()
				_, _ = layer4.MatcherSet{ms[i]}.Match(cx)
			}()
			if pan != nil {
				hx.Fail(rt, "C04", "panic/after-other-matchers/"+tgs[i].name, "matcher %s panicked as number %d of the matchers %v consulted for one connection: %v\ninput(%d)=%s",
					tgs[i].label(), k+1, labels, pan, len(in), hex.EncodeToString(clip(in, 600)))
				return
			}
		}
		hx.Case(hx.Hash(fmt.Sprint(labels), in), class != "noise", "C04/several-matchers-one-connection", "C04/"+class)
	})
}
