package c15

import (
	"bytes"
	"context"
	"encoding/json"
	"fmt"
	"os"
	"reflect"
	"strings"
	"testing"

	"github.com/caddyserver/caddy/v2"
	"github.com/caddyserver/caddy/v2/caddyconfig"
	_ "github.com/caddyserver/caddy/v2/modules/standard"
	"pgregory.net/rapid"

	_ "github.com/mholt/caddy-l4"
	"github.com/mholt/caddy-l4/layer4"

	"verifharness/hx"
	"verifharness/rx"
)

func TestMain(m *testing.M) {
	// ranges of the ip matchers may be given through placeholders, which are resolved when the matcher is provisioned
	os.Setenv("VERIF_C15_NET", "10.9.0.0/16")
	hx.Main(m)
}

func norm(v any) any {
	b, err := json.Marshal(v)
	if err != nil {
		panic(err)
	}
	var out any
	if err := json.Unmarshal(b, &out); err != nil {
		panic(err)
	}
	return out
}

func pretty(v any) string {
	b, _ := json.MarshalIndent(v, "  ", " ")
	return string(b)
}

// diffPath finds the first place where two JSON values differ.
func diffPath(a, b any, path string) string {
	if reflect.DeepEqual(a, b) {
		return ""
	}
	am, aok := a.(map[string]any)
	bm, bok := b.(map[string]any)
	if aok && bok {
		for k := range am {
			if _, ok := bm[k]; !ok {
				return fmt.Sprintf("%s.%s: only in the adapted config: %s", path, k, pretty(am[k]))
			}
		}
		for k := range bm {
			if _, ok := am[k]; !ok {
				return fmt.Sprintf("%s.%s: missing in the adapted config, expected %s", path, k, pretty(bm[k]))
			}
		}
		for k := range am {
			if d := diffPath(am[k], bm[k], path+"."+k); d != "" {
				return d
			}
		}
	}
	as, aok := a.([]any)
	bs, bok := b.([]any)
	if aok && bok {
		if len(as) != len(bs) {
			return fmt.Sprintf("%s: %d elements adapted, %d expected: adapted %s expected %s", path, len(as), len(bs), pretty(a), pretty(b))
		}
		for i := range as {
			if d := diffPath(as[i], bs[i], fmt.Sprintf("%s[%d]", path, i)); d != "" {
				return d
			}
		}
	}
	return fmt.Sprintf("%s: adapted %s, expected %s", path, pretty(a), pretty(b))
}

func dig(v any, path ...any) any {
	for _, p := range path {
		switch k := p.(type) {
		case string:
			m, ok := v.(map[string]any)
			if !ok {
				return nil
			}
			v = m[k]
		case int:
			s, ok := v.([]any)
			if !ok || k >= len(s) {
				return nil
			}
			v = s[k]
		}
	}
	return v
}

func checkConfig(t hx.TB, c config, class string) {
	adapter := caddyconfig.GetAdapter("caddyfile")
	out1, _, err := adapter.Adapt([]byte(c.Caddyfile), map[string]any{"filename": "Caddyfile"})
	if err != nil {
		hx.Fail(t, "C15", "adapt-error", "a Caddyfile written according to the documented syntax is rejected: %v\n%s", err, c.Caddyfile)
		return
	}
	out2, _, err2 := adapter.Adapt([]byte(c.Caddyfile), map[string]any{"filename": "Caddyfile"})
	if err2 != nil || !bytes.Equal(out1, out2) {
		hx.Fail(t, "C15", "adapt-not-deterministic", "adapting the same Caddyfile twice gives different JSON (err %v)\n%s", err2, c.Caddyfile)
		return
	}
	var full any
	if err := json.Unmarshal(out1, &full); err != nil {
		t.Fatalf("adapter output is not JSON: %v", err)
	}
	var got, want any
	var moduleID string
	if c.Wrapper != nil {
		got, want, moduleID = dig(full, "apps", "http", "servers", "srv0", "listener_wrappers", 0), norm(c.Wrapper), "caddy.listeners.layer4"
	} else {
		got, want, moduleID = dig(full, "apps", "layer4"), norm(obj{"servers": c.Servers}), "layer4"
	}
	if d := diffPath(got, want, "$"); d != "" {
		hx.Fail(t, "C15", "adapt-mismatch/"+firstKey(d), "the adapted JSON does not state what the Caddyfile states: %s\n--- Caddyfile ---\n%s", d, c.Caddyfile)
		return
	}
	// the JSON loads and provisions
	raw, _ := json.Marshal(got)
	if c.Wrapper != nil {
		var w map[string]any
		_ = json.Unmarshal(raw, &w)
		delete(w, "wrapper")
		raw, _ = json.Marshal(w)
	}
	base, err := rx.TLSCtx()
	if err != nil {
		t.Fatalf("tls ctx: %v", err)
	}
	ctx, cancel := caddy.NewContext(base)
	_, perr := ctx.LoadModuleByID(moduleID, raw)
	cancel()
	if perr != nil {
		hx.Fail(t, "C15", "provision-error", "the adapted configuration does not load: %v\n--- Caddyfile ---\n%s", perr, c.Caddyfile)
		return
	}
	// loading then re-serialising reproduces it
	var back []byte
	if c.Wrapper != nil {
		lw := new(layer4.ListenerWrapper)
		if err := json.Unmarshal(raw, lw); err != nil {
			hx.Fail(t, "C15", "json-load", "unmarshal ListenerWrapper: %v", err)
			return
		}
		back, _ = json.Marshal(lw)
	} else {
		app := new(layer4.App)
		if err := json.Unmarshal(raw, app); err != nil {
			hx.Fail(t, "C15", "json-load", "unmarshal App: %v", err)
			return
		}
		back, _ = json.Marshal(app)
	}
	var in, outv any
	_ = json.Unmarshal(raw, &in)
	_ = json.Unmarshal(back, &outv)
	if d := diffPath(outv, in, "$"); d != "" {
		hx.Fail(t, "C15", "json-roundtrip/"+firstKey(d), "loading the JSON configuration and serialising it again does not reproduce it: %s\n--- Caddyfile ---\n%s", d, c.Caddyfile)
		return
	}
	nesting := strings.Count(c.Caddyfile, "subroute {") + strings.Count(c.Caddyfile, "tee {") + strings.Count(c.Caddyfile, "not ")
	reused := false
	for i := 0; i < 3; i++ {
		if strings.Count(c.Caddyfile, fmt.Sprintf(" @m%d", i)) >= 2 {
			reused = true
		}
	}
	nontrivial := nesting >= 2 && reused
	cl := []string{"C15/" + class}
	if c.Blocks > 1 {
		cl = append(cl, "C15/several-global-blocks")
	}
	if reused {
		cl = append(cl, "C15/named-set-reused")
	}
	for _, kw := range []string{"subroute", "tee", "proxy", "tls", "socks5", "throttle", "proxy_protocol", "openvpn", "dns", "rdp", "http", "clock", "quic", "winbox", "not"} {
		if strings.Contains(c.Caddyfile, kw+" ") || strings.Contains(c.Caddyfile, kw+"\n") {
			cl = append(cl, "C15/uses/"+kw)
		}
	}
	hx.Case(hx.Hash(c.Caddyfile), nontrivial, cl...)
	if nontrivial {
		hx.Sample(class, map[string]any{"caddyfile": c.Caddyfile})
	}
}

func firstKey(d string) string {
	// the last path element names the option that differs: a stable finding key
	p := strings.SplitN(d, ":", 2)[0]
	if i := strings.LastIndexByte(p, '.'); i >= 0 {
		p = p[i+1:]
	}
	if i := strings.IndexByte(p, '['); i >= 0 {
		p = p[:i]
	}
	return p
}

func TestGlobalBlocks(t *testing.T) {
	rapid.Check(t, func(rt *rapid.T) { checkConfig(rt, genGlobal(rt), "global-layer4-blocks") })
}

func TestListenerWrapper(t *testing.T) {
	rapid.Check(t, func(rt *rapid.T) { checkConfig(rt, genWrapper(rt), "listener-wrapper") })
}

var _ = context.Background
