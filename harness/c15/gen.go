// Package c15 generates layer4 configurations from the grammar documented on
// the UnmarshalCaddyfile methods, printing each one twice: as Caddyfile text
// and as the JSON the documentation says it means.
package c15

import (
	"encoding/hex"
	"fmt"
	"strings"

	"github.com/caddyserver/caddy/v2/modules/caddyhttp"
	"pgregory.net/rapid"
)

// node is one directive: a name, same-line arguments and an optional block.
type node struct {
	name  string
	args  []string
	block []node
	// forceBlock prints "{ }" even when the block is empty
	forceBlock bool
}

func quote(s string) string {
	if s == "" || strings.ContainsAny(s, " \t\"{}#") {
		return `"` + strings.ReplaceAll(s, `"`, `\"`) + `"`
	}
	return s
}

func (n node) render(sb *strings.Builder, indent int) {
	sb.WriteString(strings.Repeat("\t", indent))
	sb.WriteString(n.name)
	for _, a := range n.args {
		sb.WriteString(" " + quote(a))
	}
	if len(n.block) > 0 || n.forceBlock {
		sb.WriteString(" {\n")
		for _, c := range n.block {
			c.render(sb, indent+1)
		}
		sb.WriteString(strings.Repeat("\t", indent) + "}")
	}
	sb.WriteString("\n")
}

type obj = map[string]any

func pick[T any](t *rapid.T, label string, xs ...T) T {
	return xs[rapid.IntRange(0, len(xs)-1).Draw(t, label)]
}

func strs(xs ...string) []any {
	out := make([]any, len(xs))
	for i, x := range xs {
		out[i] = x
	}
	return out
}

func someOf(t *rapid.T, label string, min int, xs ...string) []string {
	var out []string
	for _, x := range xs {
		if rapid.Bool().Draw(t, label) {
			out = append(out, x)
		}
	}
	for len(out) < min {
		out = append(out, xs[len(out)%len(xs)])
	}
	return out
}

var durations = map[string]int64{"1s": 1e9, "250ms": 250e6, "5s": 5e9, "1m30s": 90e9, "2h": 7200e9, "10s": 10e9}

func genDur(t *rapid.T, label string) (string, int64) {
	k := pick(t, label, "1s", "250ms", "5s", "1m30s", "2h", "10s")
	return k, durations[k]
}

var groupKeyHex = func() string {
	b := make([]byte, 256)
	for i := range b {
		b[i] = byte(i*13 + 5)
	}
	return hex.EncodeToString(b)
}()

type matcher struct {
	n  node // the directive as it appears inside a matcher set
	js any  // the module's JSON value
}

var cidrs = []string{"10.0.0.0/8", "192.168.1.7", "2001:db8::/32", "172.16.0.0/12", "::1"}

// genMatcher draws one connection matcher with options (depth limits `not` nesting).
func genMatcher(t *rapid.T, depth int, exclude map[string]bool) matcher {
	names := []string{"ssh", "xmpp", "postgres", "proxy_protocol", "regexp", "remote_ip", "local_ip", "socks4", "socks5", "wireguard", "winbox", "clock", "dns", "rdp", "openvpn", "http", "tls", "quic", "not"}
	var name string
	for tries := 0; ; tries++ {
		name = names[rapid.IntRange(0, len(names)-1).Draw(t, "matcher")]
		if !exclude[name] && (name != "not" || depth > 0) {
			break
		}
		if tries > 50 {
			name = "ssh"
			if exclude[name] {
				name = "xmpp"
			}
			break
		}
	}
	switch name {
	case "ssh", "xmpp", "postgres", "proxy_protocol":
		return matcher{node{name: name}, obj{}}
	case "regexp":
		p := pick(t, "pattern", "^GET", "[a-z]+\\d", "^(ab|cd)$", "hello world", "x")
		js := obj{"pattern": p}
		n := node{name: name, args: []string{p}}
		if rapid.Bool().Draw(t, "withCount") {
			c := rapid.IntRange(1, 65535).Draw(t, "count")
			n.args = append(n.args, fmt.Sprint(c))
			js["count"] = c
		}
		return matcher{n, js}
	case "remote_ip", "local_ip":
		r := someOf(t, "range", 1, cidrs...)
		args, js := append([]string(nil), r...), strs(r...)
		if rapid.IntRange(0, 4).Draw(t, "placeholderRange") == 0 {
			// a range given through a placeholder stays a placeholder in the JSON (it is resolved at provisioning)
			args = append(args, "{env.VERIF_C15_NET}")
			js = append(js, "{env.VERIF_C15_NET}")
		}
		if rapid.IntRange(0, 3).Draw(t, "privateRanges") == 0 {
			// the documented shorthand for the private address ranges
			args = append(args, "private_ranges")
			js = append(js, strs(caddyhttp.PrivateRangesCIDR()...)...)
		}
		return matcher{node{name: name, args: args}, obj{"ranges": js}}
	case "socks4":
		js := obj{}
		var b []node
		if rapid.Bool().Draw(t, "commands") {
			c := someOf(t, "cmd", 1, "CONNECT", "BIND")
			b = append(b, node{name: "commands", args: c})
			js["commands"] = strs(c...)
		}
		if rapid.Bool().Draw(t, "networks") {
			c := someOf(t, "net", 1, cidrs[:3]...)
			b = append(b, node{name: "networks", args: c})
			js["networks"] = strs(c...)
		}
		if rapid.Bool().Draw(t, "ports") {
			var ps []string
			var pj []any
			for i := rapid.IntRange(1, 3).Draw(t, "nports"); i > 0; i-- {
				p := rapid.IntRange(0, 65535).Draw(t, "port")
				ps, pj = append(ps, fmt.Sprint(p)), append(pj, p)
			}
			b = append(b, node{name: "ports", args: ps})
			js["ports"] = pj
		}
		return matcher{node{name: name, block: b}, js}
	case "socks5":
		js := obj{}
		var b []node
		if rapid.Bool().Draw(t, "authMethods") {
			var ps []string
			var pj []any
			for i := rapid.IntRange(1, 3).Draw(t, "nmeth"); i > 0; i-- {
				p := rapid.IntRange(0, 255).Draw(t, "method")
				ps, pj = append(ps, fmt.Sprint(p)), append(pj, p)
			}
			b = append(b, node{name: "auth_methods", args: ps})
			js["auth_methods"] = pj
		}
		return matcher{node{name: name, block: b}, js}
	case "wireguard":
		if rapid.Bool().Draw(t, "zero") {
			z := rapid.Uint32Range(1, 4294967295).Draw(t, "zeroVal")
			return matcher{node{name: name, args: []string{fmt.Sprint(z)}}, obj{"zero": z}}
		}
		return matcher{node{name: name}, obj{}}
	case "winbox":
		js := obj{}
		var b []node
		if rapid.Bool().Draw(t, "modes") {
			m := someOf(t, "mode", 1, "standard", "romon")
			b = append(b, node{name: "modes", args: m})
			js["modes"] = strs(m...)
		}
		switch rapid.IntRange(0, 2).Draw(t, "user") {
		case 1:
			b = append(b, node{name: "username", args: []string{"admin"}})
			js["username"] = "admin"
		case 2:
			b = append(b, node{name: "username_regexp", args: []string{"^adm"}})
			js["username_regexp"] = "^adm"
		}
		return matcher{node{name: name, block: b}, js}
	case "clock":
		tz := pick(t, "tz", "", "UTC", "Europe/Berlin", "+02", "-03:30")
		a, b := pick(t, "t1", "08:00:00", "00:00:01", "12:30:45"), pick(t, "t2", "17:00:00", "23:59:59", "06:15:00")
		var args []string
		js := obj{}
		switch rapid.IntRange(0, 2).Draw(t, "clockForm") {
		case 0:
			args = []string{a, b}
			js["after"], js["before"] = a, b
		case 1:
			args = []string{pick(t, "beforeWord", "before", "till", "to", "until"), b}
			js["after"], js["before"] = "00:00:00", b
		default:
			args = []string{pick(t, "afterWord", "after", "from"), a}
			js["after"], js["before"] = a, "00:00:00"
		}
		if tz != "" {
			args = append(args, tz)
			js["timezone"] = tz
		}
		return matcher{node{name: name, args: args}, js}
	case "dns":
		js := obj{}
		var b []node
		var allow, deny []any
		for i := rapid.IntRange(0, 3).Draw(t, "nrules"); i > 0; i-- {
			re := rapid.Bool().Draw(t, "regexpRule")
			isDeny := rapid.Bool().Draw(t, "denyRule")
			nm := pick(t, "qname", "*", "example.com.", "a.b.")
			rule := obj{}
			args := []string{nm}
			key := func(k string) string {
				if re {
					return k + "_regexp"
				}
				return k
			}
			if nm != "*" {
				rule[key("name")] = nm
			}
			if rapid.Bool().Draw(t, "withType") {
				ty := pick(t, "qtype", "*", "A", "MX")
				args = append(args, ty)
				if ty != "*" {
					rule[key("type")] = ty
				}
				if rapid.Bool().Draw(t, "withClass") {
					cl := pick(t, "qclass", "*", "IN", "CH")
					args = append(args, cl)
					if cl != "*" {
						rule[key("class")] = cl
					}
				}
			}
			opt := "allow"
			if isDeny {
				opt = "deny"
			}
			if re {
				opt += "_regexp"
			}
			b = append(b, node{name: opt, args: args})
			if isDeny {
				deny = append(deny, rule)
			} else {
				allow = append(allow, rule)
			}
		}
		if allow != nil {
			js["allow"] = allow
		}
		if deny != nil {
			js["deny"] = deny
		}
		if rapid.Bool().Draw(t, "defaultDeny") {
			b = append(b, node{name: "default_deny"})
			js["default_deny"] = true
		}
		if rapid.Bool().Draw(t, "preferAllow") {
			b = append(b, node{name: "prefer_allow"})
			js["prefer_allow"] = true
		}
		return matcher{node{name: name, block: b}, js}
	case "rdp":
		js := obj{}
		var b []node
		switch rapid.IntRange(0, 5).Draw(t, "rdpForm") {
		case 1:
			b, js["cookie_hash"] = []node{{name: "cookie_hash", args: []string{"user1"}}}, "user1"
		case 2:
			b, js["cookie_hash_regexp"] = []node{{name: "cookie_hash_regexp", args: []string{"^user"}}}, "^user"
		case 3:
			r := someOf(t, "cookieIP", 1, "10.0.0.0/8", "127.0.0.1")
			b = append(b, node{name: "cookie_ip", args: r})
			js["cookie_ips"] = strs(r...)
			if rapid.Bool().Draw(t, "cookiePort") {
				b = append(b, node{name: "cookie_port", args: []string{"3389", "1"}})
				js["cookie_ports"] = []any{3389, 1}
			}
		case 4:
			b, js["custom_info"] = []node{{name: "custom_info", args: []string{"lb=1"}}}, "lb=1"
		case 5:
			b, js["custom_info_regexp"] = []node{{name: "custom_info_regexp", args: []string{"^lb="}}}, "^lb="
		}
		return matcher{node{name: name, block: b}, js}
	case "openvpn":
		js := obj{}
		var b []node
		if rapid.Bool().Draw(t, "modes") {
			m := someOf(t, "mode", 1, "auth", "crypt", "crypt2", "plain")
			b = append(b, node{name: "modes", args: m})
			js["modes"] = strs(m...)
		}
		if rapid.Bool().Draw(t, "ignoreCrypto") {
			b = append(b, node{name: "ignore_crypto"})
			js["ignore_crypto"] = true
		}
		if rapid.Bool().Draw(t, "ignoreTimestamp") {
			b = append(b, node{name: "ignore_timestamp"})
			js["ignore_timestamp"] = true
		}
		if rapid.Bool().Draw(t, "authDigest") {
			d := pick(t, "digest", "SHA-256", "sha1", "MD5", "SHA3-512")
			b = append(b, node{name: "auth_digest", args: []string{d}})
			js["auth_digest"] = d
		}
		if rapid.Bool().Draw(t, "gkd") {
			d := pick(t, "direction", "normal", "inverse", "bidi")
			b = append(b, node{name: "group_key_direction", args: []string{d}})
			js["group_key_direction"] = d
		}
		if rapid.Bool().Draw(t, "groupKey") {
			b = append(b, node{name: "group_key", args: []string{groupKeyHex}})
			js["group_key"] = groupKeyHex
		}
		return matcher{node{name: name, block: b}, js}
	case "http":
		set := obj{}
		var inner []node
		if rapid.Bool().Draw(t, "host") {
			h := someOf(t, "hostv", 1, "a.example.com", "*.example.org")
			inner = append(inner, node{name: "host", args: h})
			set["host"] = strs(h...)
		}
		if rapid.Bool().Draw(t, "path") {
			p := someOf(t, "pathv", 1, "/api/*", "/x")
			inner = append(inner, node{name: "path", args: p})
			set["path"] = strs(p...)
		}
		if rapid.Bool().Draw(t, "method") || len(inner) == 0 {
			m := someOf(t, "methodv", 1, "GET", "POST")
			inner = append(inner, node{name: "method", args: m})
			set["method"] = strs(m...)
		}
		if len(inner) == 1 && rapid.Bool().Draw(t, "inline") {
			return matcher{node{name: name, args: append([]string{inner[0].name}, inner[0].args...)}, []any{set}}
		}
		return matcher{node{name: name, block: inner}, []any{set}}
	case "tls", "quic":
		js := obj{}
		var inner []node
		if rapid.Bool().Draw(t, "sni") {
			s := someOf(t, "sniv", 1, "example.com", "*.example.org")
			inner = append(inner, node{name: "sni", args: s})
			js["sni"] = strs(s...)
		}
		if rapid.Bool().Draw(t, "alpn") {
			s := someOf(t, "alpnv", 1, "h2", "http/1.1", "h3")
			inner = append(inner, node{name: "alpn", args: s})
			js["alpn"] = strs(s...)
		}
		if name == "tls" && rapid.IntRange(0, 2).Draw(t, "tlsRemoteIP") == 0 {
			// remote_ip of the tls matcher: plain ranges, "!" for not_ranges, and the private_ranges shorthand in both
			var args []string
			var ranges, notRanges []any
			for _, a := range someOf(t, "tlsRange", 1, "10.0.0.0/8", "!192.168.0.0/16", "private_ranges", "!private_ranges", "!2001:db8::/32") {
				args = append(args, a)
				neg := strings.HasPrefix(a, "!")
				v := strings.TrimPrefix(a, "!")
				vals := strs(v)
				if v == "private_ranges" {
					vals = strs(caddyhttp.PrivateRangesCIDR()...)
				}
				if neg {
					notRanges = append(notRanges, vals...)
				} else {
					ranges = append(ranges, vals...)
				}
			}
			inner = append(inner, node{name: "remote_ip", args: args})
			rj := obj{}
			if ranges != nil {
				rj["ranges"] = ranges
			}
			if notRanges != nil {
				rj["not_ranges"] = notRanges
			}
			js["remote_ip"] = rj
		}
		if len(inner) == 1 && rapid.Bool().Draw(t, "inline") {
			return matcher{node{name: name, args: append([]string{inner[0].name}, inner[0].args...)}, js}
		}
		return matcher{node{name: name, block: inner}, js}
	default: // not
		k := rapid.IntRange(1, 2).Draw(t, "notInner")
		used := map[string]bool{"not": depth <= 1}
		var ms []matcher
		for i := 0; i < k; i++ {
			m := genMatcher(t, depth-1, used)
			used[m.n.name] = true
			ms = append(ms, m)
		}
		set := obj{}
		for _, m := range ms {
			set[m.n.name] = m.js
		}
		if len(ms) == 1 && rapid.Bool().Draw(t, "inlineNot") {
			n := node{name: "not", args: append([]string{ms[0].n.name}, ms[0].n.args...), block: ms[0].n.block}
			return matcher{n, []any{set}}
		}
		var inner []node
		for _, m := range ms {
			inner = append(inner, m.n)
		}
		return matcher{node{name: "not", block: inner}, []any{set}}
	}
}

// namedSet is "@name ..." with its JSON matcher set.
type namedSet struct {
	name string
	n    node
	js   obj
}

func genNamedSet(t *rapid.T, name string) namedSet {
	k := rapid.IntRange(1, 3).Draw(t, "setSize")
	used := map[string]bool{}
	var ms []matcher
	for i := 0; i < k; i++ {
		m := genMatcher(t, 2, used)
		used[m.n.name] = true
		ms = append(ms, m)
	}
	js := obj{}
	for _, m := range ms {
		js[m.n.name] = m.js
	}
	if len(ms) == 1 {
		// @name <matcher> [args] [{ block }]
		n := node{name: name, args: append([]string{ms[0].n.name}, ms[0].n.args...), block: ms[0].n.block}
		return namedSet{name, n, js}
	}
	var inner []node
	for _, m := range ms {
		inner = append(inner, m.n)
	}
	return namedSet{name, node{name: name, block: inner}, js}
}

type handler struct {
	n  node
	js obj
}

func genHandler(t *rapid.T, depth int) handler {
	names := []string{"echo", "proxy", "proxy", "proxy_protocol", "socks5", "throttle", "tls", "subroute", "tee"}
	name := names[rapid.IntRange(0, len(names)-1).Draw(t, "handler")]
	if depth <= 0 && (name == "subroute" || name == "tee") {
		name = "echo"
	}
	js := obj{"handler": name}
	switch name {
	case "echo":
		return handler{node{name: name}, js}
	case "proxy":
		var ups []any
		n := node{name: name}
		for i := rapid.IntRange(0, 2).Draw(t, "inlineUpstreams"); i > 0; i-- {
			a := fmt.Sprintf("10.0.0.%d:%d", rapid.IntRange(1, 250).Draw(t, "ip"), rapid.IntRange(1, 65535).Draw(t, "port"))
			n.args = append(n.args, a)
			ups = append(ups, obj{"dial": strs(a)})
		}
		hc := obj{}
		act, pas, lb := obj{}, obj{}, obj{}
		if rapid.Bool().Draw(t, "active") {
			d, ns := genDur(t, "healthInterval")
			n.block = append(n.block, node{name: "health_interval", args: []string{d}})
			act["interval"] = ns
			if rapid.Bool().Draw(t, "healthPort") {
				n.block = append(n.block, node{name: "health_port", args: []string{"8080"}})
				act["port"] = 8080
			}
			if rapid.Bool().Draw(t, "healthTimeout") {
				d, ns := genDur(t, "healthTimeoutV")
				n.block = append(n.block, node{name: "health_timeout", args: []string{d}})
				act["timeout"] = ns
			}
		}
		if rapid.Bool().Draw(t, "passive") {
			if rapid.Bool().Draw(t, "maxFailsFirst") {
				n.block = append(n.block, node{name: "max_fails", args: []string{"3"}})
				pas["max_fails"] = 3
			}
			d, ns := genDur(t, "failDuration")
			n.block = append(n.block, node{name: "fail_duration", args: []string{d}})
			pas["fail_duration"] = ns
			if rapid.Bool().Draw(t, "ucc") {
				n.block = append(n.block, node{name: "unhealthy_connection_count", args: []string{"5"}})
				pas["unhealthy_connection_count"] = 5
			}
		}
		if len(act) > 0 {
			hc["active"] = act
		}
		if len(pas) > 0 {
			hc["passive"] = pas
		}
		if len(hc) > 0 {
			js["health_checks"] = hc
		}
		if rapid.Bool().Draw(t, "lbPolicy") {
			p := pick(t, "policy", "first", "round_robin", "ip_hash", "least_conn", "random", "random_choose")
			args := []string{p}
			sel := obj{"policy": p}
			if p == "random_choose" && rapid.Bool().Draw(t, "choose") {
				args = append(args, "3")
				sel["choose"] = 3
			}
			n.block = append(n.block, node{name: "lb_policy", args: args})
			lb["selection"] = sel
		}
		if rapid.Bool().Draw(t, "tryDuration") {
			d, ns := genDur(t, "tryDurationV")
			n.block = append(n.block, node{name: "lb_try_duration", args: []string{d}})
			lb["try_duration"] = ns
		}
		if rapid.Bool().Draw(t, "tryInterval") {
			d, ns := genDur(t, "tryIntervalV")
			n.block = append(n.block, node{name: "lb_try_interval", args: []string{d}})
			lb["try_interval"] = ns
		}
		if len(lb) > 0 {
			js["load_balancing"] = lb
		}
		if rapid.Bool().Draw(t, "proxyProtocol") {
			v := pick(t, "ppv", "v1", "v2")
			n.block = append(n.block, node{name: "proxy_protocol", args: []string{v}})
			js["proxy_protocol"] = v
		}
		for i := rapid.IntRange(0, 2).Draw(t, "blockUpstreams"); i > 0 || len(ups) == 0; i-- {
			a1 := fmt.Sprintf("10.1.0.%d:443", rapid.IntRange(1, 250).Draw(t, "uip"))
			if rapid.Bool().Draw(t, "upstreamBlock") {
				a2 := fmt.Sprintf("10.2.0.%d:8443", rapid.IntRange(1, 250).Draw(t, "uip2"))
				u := obj{"dial": strs(a1, a2)}
				b := []node{{name: "dial", args: []string{a1, a2}}}
				var sameLine []string
				if rapid.Bool().Draw(t, "sameLineDial") {
					// "upstream <address> { dial ... }": same-line addresses are dial addresses too, in the order written
					a0 := fmt.Sprintf("10.3.0.%d:9443", rapid.IntRange(1, 250).Draw(t, "uip0"))
					sameLine = []string{a0}
					u["dial"] = strs(a0, a1, a2)
				}
				if rapid.Bool().Draw(t, "maxConns") {
					b = append(b, node{name: "max_connections", args: []string{"7"}})
					u["max_connections"] = 7
				}
				tlsc := obj{}
				withTLS := false
				if rapid.Bool().Draw(t, "utls") {
					b = append(b, node{name: "tls"})
					withTLS = true
				}
				if rapid.Bool().Draw(t, "uskip") {
					b = append(b, node{name: "tls_insecure_skip_verify"})
					tlsc["insecure_skip_verify"], withTLS = true, true
				}
				if rapid.Bool().Draw(t, "usni") {
					b = append(b, node{name: "tls_server_name", args: []string{"up.example.com"}})
					tlsc["server_name"], withTLS = "up.example.com", true
				}
				if rapid.Bool().Draw(t, "ureneg") {
					r := pick(t, "reneg", "never", "once", "freely")
					b = append(b, node{name: "tls_renegotiation", args: []string{r}})
					tlsc["renegotiation"], withTLS = r, true
				}
				if withTLS {
					u["tls"] = tlsc
				}
				n.block = append(n.block, node{name: "upstream", args: sameLine, block: b})
				ups = append(ups, u)
			} else {
				n.block = append(n.block, node{name: "upstream", args: []string{a1}})
				ups = append(ups, obj{"dial": strs(a1)})
			}
		}
		js["upstreams"] = ups
		return handler{n, js}
	case "proxy_protocol":
		n := node{name: name}
		if rapid.Bool().Draw(t, "allow") {
			a := someOf(t, "allowv", 1, "10.0.0.0/8", "2001:db8::/32", "192.168.0.0/16")
			n.block = append(n.block, node{name: "allow", args: a})
			js["allow"] = strs(a...)
		}
		if rapid.Bool().Draw(t, "timeout") {
			d, ns := genDur(t, "ppTimeout")
			n.block = append(n.block, node{name: "timeout", args: []string{d}})
			js["timeout"] = ns
		}
		return handler{n, js}
	case "socks5":
		n := node{name: name}
		if rapid.Bool().Draw(t, "bindIP") {
			n.block = append(n.block, node{name: "bind_ip", args: []string{"127.0.0.1"}})
			js["bind_ip"] = "127.0.0.1"
		}
		if rapid.Bool().Draw(t, "commands") {
			c := someOf(t, "cmd", 1, "CONNECT", "ASSOCIATE", "BIND")
			n.block = append(n.block, node{name: "commands", args: c})
			js["commands"] = strs(c...)
		}
		switch rapid.IntRange(0, 5).Draw(t, "creds") {
		case 0, 1:
			n.block = append(n.block, node{name: "credentials", args: []string{"bob", "secret", "alice", "pw 2"}})
			js["credentials"] = obj{"bob": "secret", "alice": "pw 2"}
		case 2:
			// an empty user name is an entry like any other: it still turns authentication on (nobody can use it)
			n.block = append(n.block, node{name: "credentials", args: []string{"", "s3cret"}})
			js["credentials"] = obj{"": "s3cret"}
		case 3:
			// several options add up; an empty password is a password
			n.block = append(n.block, node{name: "credentials", args: []string{"bob", ""}}, node{name: "credentials", args: []string{"", "x", "carol", "pw"}})
			js["credentials"] = obj{"bob": "", "": "x", "carol": "pw"}
		}
		return handler{n, js}
	case "throttle":
		n := node{name: name}
		if rapid.Bool().Draw(t, "latency") {
			d, ns := genDur(t, "latencyV")
			n.block = append(n.block, node{name: "latency", args: []string{d}})
			js["latency"] = ns
		}
		if rapid.Bool().Draw(t, "rbs") {
			n.block = append(n.block, node{name: "read_burst_size", args: []string{"4096"}})
			js["read_burst_size"] = 4096
		}
		if rapid.Bool().Draw(t, "rbps") {
			// (values a float64 holds and a float32 does not are part of the range: the JSON field is a float64)
			v := pick(t, "rate", "1000", "2500.5", "1e6", "0.1", "1234.56", "123456789")
			n.block = append(n.block, node{name: "read_bytes_per_second", args: []string{v}})
			js["read_bytes_per_second"] = map[string]float64{"1000": 1000, "2500.5": 2500.5, "1e6": 1e6, "0.1": 0.1, "1234.56": 1234.56, "123456789": 123456789}[v]
		}
		if rapid.Bool().Draw(t, "trbs") {
			n.block = append(n.block, node{name: "total_read_burst_size", args: []string{"65536"}})
			js["total_read_burst_size"] = 65536
		}
		if rapid.Bool().Draw(t, "trbps") {
			v := pick(t, "totalRate", "500000", "333333.3", "16777217")
			n.block = append(n.block, node{name: "total_read_bytes_per_second", args: []string{v}})
			js["total_read_bytes_per_second"] = map[string]float64{"500000": 500000, "333333.3": 333333.3, "16777217": 16777217}[v]
		}
		return handler{n, js}
	case "tls":
		n := node{name: name}
		var cps []any
		for i := rapid.IntRange(0, 2).Draw(t, "policies"); i > 0; i-- {
			cp := obj{}
			var b []node
			if rapid.Bool().Draw(t, "cpAlpn") {
				a := someOf(t, "cpAlpnV", 1, "h2", "http/1.1")
				b = append(b, node{name: "alpn", args: a})
				cp["alpn"] = strs(a...)
			}
			if rapid.Bool().Draw(t, "cpDefaultSNI") {
				b = append(b, node{name: "default_sni", args: []string{"example.com"}})
				cp["default_sni"] = "example.com"
			}
			switch rapid.IntRange(0, 3).Draw(t, "cpProtocols") {
			case 1: // protocols <min> [<max>]: both given
				pair := [][2]string{{"tls1.2", "tls1.3"}, {"tls1.2", "tls1.2"}, {"tls1.3", "tls1.3"}}[rapid.IntRange(0, 2).Draw(t, "cpProtoPair")]
				b = append(b, node{name: "protocols", args: []string{pair[0], pair[1]}})
				cp["protocol_min"], cp["protocol_max"] = pair[0], pair[1]
			case 2: // only the minimum: nothing is said about a maximum
				v := []string{"tls1.2", "tls1.3"}[rapid.IntRange(0, 1).Draw(t, "cpProtoMin")]
				b = append(b, node{name: "protocols", args: []string{v}})
				cp["protocol_min"] = v
			}
			if rapid.IntRange(0, 2).Draw(t, "cpCiphers") == 0 {
				c := someOf(t, "cpCiphersV", 1, "TLS_ECDHE_RSA_WITH_AES_128_GCM_SHA256", "TLS_ECDHE_ECDSA_WITH_AES_256_GCM_SHA384", "TLS_ECDHE_ECDSA_WITH_CHACHA20_POLY1305_SHA256")
				b = append(b, node{name: "ciphers", args: c})
				cp["cipher_suites"] = strs(c...)
			}
			if rapid.IntRange(0, 3).Draw(t, "cpFallbackSNI") == 0 {
				b = append(b, node{name: "fallback_sni", args: []string{"fallback.example.com"}})
				cp["fallback_sni"] = "fallback.example.com"
			}
			if rapid.IntRange(0, 5).Draw(t, "cpDrop") == 0 {
				b = append(b, node{name: "drop"})
				cp["drop"] = true
			}
			if rapid.IntRange(0, 3).Draw(t, "cpCertSelection") == 0 {
				sel := obj{}
				var sb []node
				if rapid.Bool().Draw(t, "csAny") {
					v := someOf(t, "csAnyV", 1, "verif", "blue", "green")
					sb = append(sb, node{name: "any_tag", args: v})
					sel["any_tag"] = strs(v...)
				}
				if rapid.Bool().Draw(t, "csAll") {
					v := someOf(t, "csAllV", 1, "verif", "prod")
					sb = append(sb, node{name: "all_tags", args: v})
					sel["all_tags"] = strs(v...)
				}
				if rapid.Bool().Draw(t, "csSerial") {
					// serial numbers are decimal numerals, however they are written; the JSON carries them as strings
					v := someOf(t, "csSerialV", 1, "42", "0123", "0770", "18446744073709551617")
					sb = append(sb, node{name: "serial_number", args: v})
					var js []any
					for _, x := range v {
						js = append(js, strings.TrimLeft(x, "0"))
					}
					sel["serial_number"] = js
				}
				if rapid.Bool().Draw(t, "csOrg") {
					v := someOf(t, "csOrgV", 1, "Example", "Verif")
					sb = append(sb, node{name: "subject_organization", args: v})
					sel["subject_organization"] = strs(v...)
				}
				b = append(b, node{name: "cert_selection", block: sb, forceBlock: true})
				cp["certificate_selection"] = sel
			}
			if rapid.Bool().Draw(t, "cpCurves") {
				c := someOf(t, "cpCurvesV", 1, "x25519", "secp256r1")
				b = append(b, node{name: "curves", args: c})
				cp["curves"] = strs(c...)
			}
			if rapid.Bool().Draw(t, "cpMatch") {
				b = append(b, node{name: "match", block: []node{{name: "sni", args: []string{"example.com"}}}})
				cp["match"] = obj{"sni": strs("example.com")}
			}
			n.block = append(n.block, node{name: "connection_policy", block: b, forceBlock: true})
			cps = append(cps, cp)
		}
		if cps != nil {
			js["connection_policies"] = cps
		}
		return handler{n, js}
	case "tee":
		var br []any
		n := node{name: name}
		for i := rapid.IntRange(1, 2).Draw(t, "branchLen"); i > 0; i-- {
			h := genHandler(t, depth-1)
			n.block = append(n.block, h.n)
			br = append(br, h.js)
		}
		js["branch"] = br
		return handler{n, js}
	default: // subroute
		body, routes, mt := genRoutesBody(t, depth-1)
		n := node{name: name, block: body, forceBlock: true}
		if routes != nil {
			js["routes"] = routes
		}
		if mt != 0 {
			js["matching_timeout"] = mt
		}
		return handler{n, js}
	}
}

// genRoutesBody draws what may stand inside a server, subroute or listener wrapper:
// matching_timeout, named matcher sets and routes (in any order of definition).
func genRoutesBody(t *rapid.T, depth int) (body []node, routes []any, matchingTimeout int64) {
	if rapid.Bool().Draw(t, "matchingTimeout") {
		d, ns := genDur(t, "matchingTimeoutV")
		body = append(body, node{name: "matching_timeout", args: []string{d}})
		matchingTimeout = ns
	}
	nsets := rapid.IntRange(0, 3).Draw(t, "nsets")
	sets := make([]namedSet, nsets)
	for i := range sets {
		sets[i] = genNamedSet(t, fmt.Sprintf("@m%d", i))
	}
	defined := 0
	for r := rapid.IntRange(1, 3).Draw(t, "nroutes"); r > 0; r-- {
		// matcher sets may be defined anywhere in the block, also after the route that names them
		for defined < nsets && rapid.Bool().Draw(t, "defineBefore") {
			body = append(body, sets[defined].n)
			defined++
		}
		rn := node{name: "route", forceBlock: true}
		route := obj{}
		var match []any
		if nsets > 0 {
			for i := rapid.IntRange(0, 2).Draw(t, "nrefs"); i > 0; i-- {
				s := sets[rapid.IntRange(0, nsets-1).Draw(t, "ref")] // a set may be reused
				rn.args = append(rn.args, s.name)
				match = append(match, s.js)
			}
		}
		if match != nil {
			route["match"] = match
		}
		var hs []any
		for i := rapid.IntRange(1, 3).Draw(t, "nhandlers"); i > 0; i-- {
			h := genHandler(t, depth)
			rn.block = append(rn.block, h.n)
			hs = append(hs, h.js)
		}
		route["handle"] = hs
		body = append(body, rn)
		routes = append(routes, route)
	}
	for ; defined < nsets; defined++ {
		body = append(body, sets[defined].n)
	}
	return
}

type config struct {
	Caddyfile string
	// Servers is the expected apps.layer4.servers value (nil for the listener-wrapper form)
	Servers obj
	// Wrapper is the expected listener wrapper value (listener-wrapper form)
	Wrapper obj
	Blocks  int
}

func genGlobal(t *rapid.T) config {
	var sb strings.Builder
	servers := obj{}
	sb.WriteString("{\n")
	idx := 0
	blocks := rapid.IntRange(1, 2).Draw(t, "layer4Blocks")
	port := 7000
	for b := 0; b < blocks; b++ {
		l4 := node{name: "layer4", forceBlock: true}
		for s := rapid.IntRange(1, 2).Draw(t, "nservers"); s > 0; s-- {
			var addrs []string
			for a := rapid.IntRange(1, 2).Draw(t, "naddrs"); a > 0; a-- {
				port++
				addrs = append(addrs, pick(t, "addrForm", ":%d", "127.0.0.1:%d", "udp/:%d", "tcp/0.0.0.0:%d"))
				addrs[len(addrs)-1] = fmt.Sprintf(addrs[len(addrs)-1], port)
			}
			body, routes, mt := genRoutesBody(t, 2)
			srv := obj{"listen": strs(addrs...)}
			if routes != nil {
				srv["routes"] = routes
			}
			if mt != 0 {
				srv["matching_timeout"] = mt
			}
			servers[fmt.Sprintf("srv%d", idx)] = srv
			idx++
			l4.block = append(l4.block, node{name: addrs[0], args: addrs[1:], block: body, forceBlock: true})
		}
		l4.render(&sb, 1)
	}
	sb.WriteString("}\n")
	return config{Caddyfile: sb.String(), Servers: servers, Blocks: blocks}
}

func genWrapper(t *rapid.T) config {
	body, routes, mt := genRoutesBody(t, 2)
	w := obj{"wrapper": "layer4"}
	if routes != nil {
		w["routes"] = routes
	}
	if mt != 0 {
		w["matching_timeout"] = mt
	}
	var sb strings.Builder
	sb.WriteString("{\n")
	node{name: "servers", block: []node{{name: "listener_wrappers", block: []node{{name: "layer4", block: body, forceBlock: true}, {name: "tls"}}}}}.render(&sb, 1)
	sb.WriteString("}\n:8443 {\n\trespond \"OK\"\n}\n")
	return config{Caddyfile: sb.String(), Wrapper: w}
}
