// C13 — the listener wrapper hands unconsumed connections over intact, exactly once.
package c13

import (
	"bytes"
	"crypto/tls"
	"encoding/json"
	"errors"
	"fmt"
	"io"
	"net"
	"os"
	"runtime"
	"strings"
	"sync"
	"syscall"
	"testing"
	"time"

	"github.com/caddyserver/caddy/v2"
	"pgregory.net/rapid"

	"github.com/mholt/caddy-l4/layer4"

	"verifharness/hx"
	"verifharness/rx"
)

func TestMain(m *testing.M) { hx.Main(m) }

// The first byte of a stream selects what layer4 does with the connection.
type kind struct {
	first byte
	name  string
	depth int  // bytes the route's matcher inspects (prefetched)
	take  int  // bytes a non-terminal handler consumes before the connection falls through
	fall  bool // reaches the wrapped listener
	tls   bool
}

var kinds = []kind{
	{'T', "terminal", 1, 0, false, false},
	{'E', "matcher-error", 1, 0, false, false},
	{'U', "matching-timeout", 1, 0, false, false},
	{'F', "fallthrough-shallow", 1, 0, true, false},
	{'G', "fallthrough-3000-take-5", 3000, 5, true, false},
	{'H', "fallthrough-8192-take-2000", 8192, 2000, true, false},
	{'K', "fallthrough-take-all-prefetched", 600, 600, true, false},
	{'Z', "no-route-matches", 0, 0, true, false},
	{'P', "non-terminal-then-terminal", 1, 1, false, false},
	{0x16, "tls-terminated", 0, 0, true, true},
}

func wrapperJSON() []byte {
	routes := []rx.R{
		{Match: []map[string]any{rx.M("verif_need", &rx.Need{N: 1, Pos: 0, Val: 'T'})}, Handle: []map[string]any{rx.H("verif_term", "id", "TERM", "echo", true)}},
		{Match: []map[string]any{rx.M("verif_err", &rx.ErrMatcher{First: 'E'})}, Handle: []map[string]any{rx.H("verif_term", "id", "NEVER")}},
		{Match: []map[string]any{rx.M("verif_need", &rx.Need{N: 1, Pos: 0, Val: 'U'})}, Handle: []map[string]any{rx.H("subroute", "matching_timeout", "150ms",
			"routes", []rx.R{{Match: []map[string]any{rx.M("verif_need", &rx.Need{N: 1 << 20, Val: 1})}, Handle: []map[string]any{rx.H("verif_term", "id", "NEVER")}}})}},
		{Match: []map[string]any{rx.M("verif_need", &rx.Need{N: 1, Pos: 0, Val: 'F'})}, Handle: []map[string]any{rx.H("verif_take", "id", "F", "k", 0)}},
		{Match: []map[string]any{rx.M("verif_need", &rx.Need{N: 3000, Pos: 0, Val: 'G', Early: true})}, Handle: []map[string]any{rx.H("verif_take", "id", "G", "k", 5)}},
		{Match: []map[string]any{rx.M("verif_need", &rx.Need{N: 8192, Pos: 0, Val: 'H', Early: true})}, Handle: []map[string]any{rx.H("verif_take", "id", "H", "k", 2000)}},
		{Match: []map[string]any{rx.M("verif_need", &rx.Need{N: 600, Pos: 0, Val: 'K', Early: true})}, Handle: []map[string]any{rx.H("verif_take", "id", "K", "k", 600)}},
		{Match: []map[string]any{rx.M("tls", map[string]any{})}, Handle: []map[string]any{rx.H("tls")}},
		// 'P' is consumed by a non-terminal route; the stream then continues with 'Q', which a terminal route takes
		{Match: []map[string]any{rx.M("verif_need", &rx.Need{N: 1, Pos: 0, Val: 'P'})}, Handle: []map[string]any{rx.H("verif_take", "id", "P", "k", 1)}},
		{Match: []map[string]any{rx.M("verif_need", &rx.Need{N: 1, Pos: 0, Val: 'Q'})}, Handle: []map[string]any{rx.H("verif_term", "id", "TERM2", "echo", true)}},
	}
	b, _ := json.Marshal(map[string]any{"routes": routes, "matching_timeout": "2s"})
	return b
}

type connPlan struct {
	Kind int
	Size int // bytes the client sends (incl. the selector byte); at least the matcher depth for fall-through kinds
	Cuts []int
	Tag  uint64
}

type batch struct {
	Conns        []connPlan
	AcceptDelay  time.Duration // pause of the consumer between two Accepts
	InitialStall time.Duration // the consumer starts accepting only after this long (fills the hand-over channel)
	EarlyClose   bool          // the listener is closed while connections are still in flight
	CloseAfter   time.Duration
	// NoConsumer: nobody calls Accept before the listener is closed (more connections pend than the hand-over channel holds)
	NoConsumer bool
	// Hiccups: before its n-th connection the underlying listener reports a passing error (too many open files) once;
	// the connection stays queued and is handed out by the next Accept, as the kernel does
	Hiccups []int
}

// hiccupListener is a listener whose Accept fails now and then with a temporary error, as a real one does when the
// process is out of file descriptors for a moment.
type hiccupListener struct {
	net.Listener
	mu   sync.Mutex
	n    int
	at   map[int]bool
	done int
}

func (h *hiccupListener) Accept() (net.Conn, error) {
	h.mu.Lock()
	if h.at[h.n] {
		delete(h.at, h.n)
		h.done++
		h.mu.Unlock()
		return nil, &net.OpError{Op: "accept", Net: "tcp", Addr: h.Addr(), Err: os.NewSyscallError("accept4", syscall.EMFILE)}
	}
	h.n++
	h.mu.Unlock()
	return h.Listener.Accept()
}

func (cp connPlan) stream() []byte {
	k := kinds[cp.Kind]
	s := hx.Stream(cp.Tag, cp.Size)
	// matching continues on the stream as a non-terminal handler left it: no later byte may look like a selector
	for i, b := range s {
		if strings.IndexByte("TEUFGHKZPQ\x16", b) >= 0 {
			s[i] = '.'
		}
	}
	if !k.tls && len(s) > 0 {
		s[0] = k.first
	}
	if k.first == 'P' && len(s) > 1 {
		s[1] = 'Q'
	}
	return s
}

func genBatch(t *rapid.T) batch {
	var b batch
	n := rapid.IntRange(2, 24).Draw(t, "nconns")
	for i := 0; i < n; i++ {
		ki := rapid.IntRange(0, len(kinds)-1).Draw(t, "kind")
		k := kinds[ki]
		// at least the matcher depth, and 5 unconsumed bytes so that the tls matcher of a later route can be decided
		size := max(k.depth, k.take+5, 1) + rapid.IntRange(0, 3000).Draw(t, "extra")
		if rapid.IntRange(0, 5).Draw(t, "big") == 0 {
			size += rapid.IntRange(4000, 12000).Draw(t, "bigExtra")
		}
		cp := connPlan{Kind: ki, Size: size, Tag: rapid.Uint64().Draw(t, "tag")}
		if rapid.Bool().Draw(t, "segmented") {
			cp.Cuts = []int{rapid.IntRange(1, size).Draw(t, "cut1"), rapid.IntRange(1, size).Draw(t, "cut2")}
			if cp.Cuts[0] > cp.Cuts[1] {
				cp.Cuts[0], cp.Cuts[1] = cp.Cuts[1], cp.Cuts[0]
			}
		}
		b.Conns = append(b.Conns, cp)
	}
	b.AcceptDelay = time.Duration(rapid.IntRange(0, 6).Draw(t, "acceptDelayMs")) * time.Millisecond
	if rapid.Bool().Draw(t, "stall") {
		b.InitialStall = time.Duration(rapid.IntRange(10, 80).Draw(t, "stallMs")) * time.Millisecond
	}
	if rapid.IntRange(0, 3).Draw(t, "earlyClose") == 0 {
		b.EarlyClose = true
		b.CloseAfter = time.Duration(rapid.IntRange(0, 60).Draw(t, "closeAfterMs")) * time.Millisecond
	}
	if rapid.IntRange(0, 2).Draw(t, "hiccups") == 0 {
		for i := rapid.IntRange(1, 2).Draw(t, "nhiccups"); i > 0; i-- {
			b.Hiccups = append(b.Hiccups, rapid.IntRange(0, n-1).Draw(t, "hiccupBefore"))
		}
	}
	if rapid.IntRange(0, 5).Draw(t, "noConsumer") == 0 {
		// a backlog larger than the hand-over channel, nobody accepting, then Close
		b.NoConsumer, b.EarlyClose, b.CloseAfter = true, true, time.Duration(rapid.IntRange(40, 120).Draw(t, "closeAfterMs2"))*time.Millisecond
		for len(b.Conns) < runtime.GOMAXPROCS(0)+rapid.IntRange(2, 8).Draw(t, "surplus") {
			ki := []int{3, 4, 6, 7}[rapid.IntRange(0, 3).Draw(t, "fallKind")] // fall-through kinds
			k := kinds[ki]
			b.Conns = append(b.Conns, connPlan{Kind: ki, Size: max(k.depth, k.take+5, 1) + 10, Tag: rapid.Uint64().Draw(t, "tag2")})
		}
	}
	return b
}

type accepted struct {
	data   []byte
	state  *tls.ConnectionState
	remote string
}

var provMu sync.Mutex

func runBatch(t hx.TB, b batch) {
	ctx, err := rx.TLSCtx()
	if err != nil {
		t.Fatalf("tls ctx: %v", err)
	}
	provMu.Lock()
	lw := new(layer4.ListenerWrapper)
	if err := json.Unmarshal(wrapperJSON(), lw); err != nil {
		provMu.Unlock()
		t.Fatalf("unmarshal wrapper: %v", err)
	}
	err = lw.Provision(ctx)
	provMu.Unlock()
	if err != nil {
		t.Fatalf("provision wrapper: %v", err)
	}
	base, err := hx.Listen("tcp", "127.0.0.1:0")
	if err != nil {
		t.Fatalf("listen: %v", err)
	}
	if len(b.Hiccups) > 0 {
		hl := &hiccupListener{Listener: base, at: map[int]bool{}}
		for _, i := range b.Hiccups {
			hl.at[i] = true
		}
		base = hl
		hx.Class("C13/underlying-accept-failed-temporarily", 1)
	}
	ln := lw.WrapListener(base)
	var mu sync.Mutex
	byRemote := map[string][]accepted{}
	var acceptErr error
	acceptDone := make(chan struct{})
	var readers sync.WaitGroup
	go func() {
		defer close(acceptDone)
		time.Sleep(b.InitialStall)
		if b.NoConsumer {
			time.Sleep(b.CloseAfter + 150*time.Millisecond) // first Accept only after the listener has been closed
		}
		for {
			c, err := ln.Accept()
			if err != nil {
				acceptErr = err
				return
			}
			readers.Add(1)
			go func() {
				defer readers.Done()
				defer c.Close()
				a := accepted{remote: c.RemoteAddr().String()}
				if cs, ok := c.(interface{ ConnectionState() tls.ConnectionState }); ok {
					st := cs.ConnectionState()
					a.state = &st
				}
				_ = c.SetReadDeadline(time.Now().Add(8 * time.Second))
				a.data, _ = io.ReadAll(c)
				// consumers close more than once (net/http closes an idle connection again at shutdown); the deferred
				// Close below is the second one
				_ = c.Close()
				mu.Lock()
				byRemote[a.remote] = append(byRemote[a.remote], a)
				mu.Unlock()
			}()
			time.Sleep(b.AcceptDelay)
		}
	}()

	type clientRes struct {
		local    string
		sawClose bool
		echoed   []byte
		err      string
	}
	results := make([]clientRes, len(b.Conns))
	var clients sync.WaitGroup
	for i, cp := range b.Conns {
		i, cp := i, cp
		clients.Add(1)
		go func() {
			defer clients.Done()
			k := kinds[cp.Kind]
			raw, err := hx.Dial("tcp", base.Addr().String())
			if err != nil {
				results[i].err = "dial: " + err.Error() // the listener may already be closed (early close)
				results[i].sawClose = true
				return
			}
			defer raw.Close()
			results[i].local = raw.LocalAddr().String()
			_ = raw.SetDeadline(time.Now().Add(10 * time.Second))
			var c net.Conn = raw
			stream := cp.stream()
			if k.tls {
				tc := tls.Client(raw, rx.ClientTLS("example.com", []string{"h2", "http/1.1"}))
				if err := tc.Handshake(); err != nil {
					results[i].err = "handshake: " + err.Error()
					results[i].sawClose = true
					return
				}
				c = tc
			}
			for j, seg := range hx.Split(stream, cp.Cuts) {
				if j > 0 {
					time.Sleep(300 * time.Microsecond)
				}
				if _, err := c.Write(seg); err != nil {
					break
				}
			}
			if k.tls {
				_ = c.(*tls.Conn).CloseWrite()
			} else if k.first != 'U' { // the timeout kind stays silent but open
				_ = raw.(*net.TCPConn).CloseWrite()
			}
			// whatever happens to the connection, the client eventually sees its end
			buf, err := io.ReadAll(c)
			results[i].echoed = buf
			results[i].sawClose = err == nil || !isTimeout(err)
		}()
	}
	if b.EarlyClose {
		time.Sleep(b.CloseAfter)
		_ = ln.Close()
	}
	cdone := make(chan struct{})
	go func() { clients.Wait(); close(cdone) }()
	select {
	case <-cdone:
	case <-time.After(15 * time.Second):
		hx.Fail(t, "C13", "client-never-saw-end", "some client connection was neither served nor closed within 15 s\n  %s", describe(b))
		_ = ln.Close()
		return
	}
	if !b.EarlyClose {
		_ = ln.Close()
	}
	select {
	case <-acceptDone:
	case <-time.After(5 * time.Second):
		hx.Fail(t, "C13", "accept-after-close", "Accept did not report closure within 5 s after the listener was closed\n  %s", describe(b))
		return
	}
	if !errors.Is(acceptErr, net.ErrClosed) {
		hx.Fail(t, "C13", "accept-after-close", "Accept returned %v after close, want net.ErrClosed\n  %s", acceptErr, describe(b))
		return
	}
	for i := 0; i < 3; i++ { // and it keeps reporting closure
		c, err := ln.Accept()
		if err == nil {
			// a connection that was still pending may be handed out; it must be a genuine one
			_ = c.Close()
			continue
		}
		if !errors.Is(err, net.ErrClosed) {
			hx.Fail(t, "C13", "accept-after-close", "a later Accept returned %v, want net.ErrClosed\n  %s", err, describe(b))
			return
		}
	}
	readers.Wait()
	// ---- per connection verdicts ----
	mu.Lock()
	defer mu.Unlock()
	delivered := 0
	for i, cp := range b.Conns {
		k := kinds[cp.Kind]
		r := results[i]
		if r.local == "" {
			continue // never connected (listener already closed)
		}
		acc := byRemote[r.local]
		stream := cp.stream()
		if len(acc) > 1 {
			hx.Fail(t, "C13", "delivered-twice", "connection %d (%s) was delivered %d times to Accept\n  %s", i, k.name, len(acc), describe(b))
			return
		}
		if !k.fall {
			if len(acc) > 0 {
				hx.Fail(t, "C13", "consumed-but-delivered", "connection %d (%s) was consumed or rejected by layer4 but was also delivered to Accept (%d bytes)\n  %s", i, k.name, len(acc[0].data), describe(b))
				return
			}
			if !r.sawClose {
				hx.Fail(t, "C13", "not-closed", "connection %d (%s) was consumed or rejected by layer4 but never closed\n  %s", i, k.name, describe(b))
				return
			}
			if k.first == 'P' && !b.EarlyClose && !bytes.Equal(r.echoed, stream[1:]) {
				hx.Fail(t, "C13", "terminal-stream", "connection %d (non-terminal then terminal echo) got back %d bytes, want %d\n  %s", i, len(r.echoed), len(stream)-1, describe(b))
				return
			}
			if k.first == 'T' && !b.EarlyClose && !bytes.Equal(r.echoed, stream) {
				hx.Fail(t, "C13", "terminal-stream", "connection %d (terminal echo) got back %d bytes, want %d; first difference %d\n  %s", i, len(r.echoed), len(stream), hx.FirstDiff(r.echoed, stream), describe(b))
				return
			}
			continue
		}
		if len(acc) == 0 {
			if !b.EarlyClose {
				hx.Fail(t, "C13", "not-delivered", "connection %d (%s) fell through layer4 but never appeared in Accept (client error %q)\n  %s", i, k.name, r.err, describe(b))
				return
			}
			if !r.sawClose {
				hx.Fail(t, "C13", "pending-not-closed", "connection %d (%s) was pending when the listener closed and was neither delivered nor closed\n  %s", i, k.name, describe(b))
				return
			}
			continue
		}
		delivered++
		want := stream[k.take:]
		if !bytes.Equal(acc[0].data, want) {
			hx.Fail(t, "C13", "handed-over-stream", "connection %d (%s): Accept's reader got %d bytes, want the %d unconsumed bytes; first difference at %d (another connection's data?)\n  %s", i, k.name, len(acc[0].data), len(want), hx.FirstDiff(acc[0].data, want), describe(b))
			return
		}
		if k.tls {
			if acc[0].state == nil || acc[0].state.ServerName != "example.com" || acc[0].state.NegotiatedProtocol != "h2" || !acc[0].state.HandshakeComplete {
				hx.Fail(t, "C13", "tls-state", "connection %d: TLS connection state not exposed or wrong: %+v\n  %s", i, acc[0].state, describe(b))
				return
			}
		} else if acc[0].state != nil {
			hx.Fail(t, "C13", "tls-state", "connection %d (%s) is plain but exposes a TLS state\n  %s", i, k.name, describe(b))
			return
		}
	}
	// no goroutine of the listener may stay behind
	deadline := time.Now().Add(5 * time.Second)
	for {
		if n := listenerGoroutines(); n == 0 {
			break
		} else if time.Now().After(deadline) {
			hx.Fail(t, "C13", "goroutine-left", "%d goroutine(s) with a layer4.(*listener) frame are still alive 5 s after Close\n%s\n  %s", n, listenerStacks(), describe(b))
			return
		}
		time.Sleep(20 * time.Millisecond)
	}
	kindsSeen := map[string]bool{}
	withPrefetch := false
	for _, cp := range b.Conns {
		kindsSeen[outcomeClass(kinds[cp.Kind])] = true
		if kinds[cp.Kind].fall && kinds[cp.Kind].depth > 1 {
			withPrefetch = true
		}
	}
	nontrivial := len(kindsSeen) >= 2 && withPrefetch
	cl := []string{"C13/batch"}
	if b.EarlyClose {
		cl = append(cl, "C13/early-close")
	}
	if b.InitialStall > 0 {
		cl = append(cl, "C13/slow-consumer")
	}
	if b.NoConsumer {
		cl = append(cl, "C13/no-consumer-until-close")
	}
	hx.Class("C13/connections", int64(len(b.Conns)))
	hx.Class("C13/delivered", int64(delivered))
	hx.Case(hx.Hash(describe(b)), nontrivial, cl...)
	if nontrivial {
		hx.Sample(fmt.Sprint(b.EarlyClose, b.InitialStall > 0), map[string]any{"batch": describe(b), "delivered": delivered})
	}
}

func outcomeClass(k kind) string {
	switch {
	case k.fall:
		return "fall"
	case k.first == 'T':
		return "terminal"
	}
	return "failed"
}

func isTimeout(err error) bool {
	var ne net.Error
	return errors.As(err, &ne) && ne.Timeout()
}

func describe(b batch) string {
	var sb strings.Builder
	fmt.Fprintf(&sb, "accept delay %v, initial stall %v, early close %v after %v, no consumer until close %v; connections:", b.AcceptDelay, b.InitialStall, b.EarlyClose, b.CloseAfter, b.NoConsumer)
	for i, cp := range b.Conns {
		fmt.Fprintf(&sb, " #%d %s(%dB,cuts%v)", i, kinds[cp.Kind].name, cp.Size, cp.Cuts)
	}
	return sb.String()
}

func listenerStacks() string {
	buf := make([]byte, 1<<20)
	buf = buf[:runtime.Stack(buf, true)]
	var out []string
	for _, g := range strings.Split(string(buf), "\n\n") {
		if strings.Contains(g, "layer4.(*listener)") {
			out = append(out, g)
		}
	}
	return strings.Join(out, "\n\n")
}

func listenerGoroutines() int {
	s := listenerStacks()
	if s == "" {
		return 0
	}
	return strings.Count(s, "\n\n") + 1
}

func TestListenerWrapper(t *testing.T) {
	rapid.Check(t, func(rt *rapid.T) { runBatch(rt, genBatch(rt)) })
}

var _ = caddy.Context{}
