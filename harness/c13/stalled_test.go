package c13

import (
	"crypto/tls"
	"encoding/json"
	"errors"
	"fmt"
	"net"
	"testing"
	"time"

	"github.com/mholt/caddy-l4/layer4"
	"pgregory.net/rapid"

	"verifharness/hx"
	"verifharness/mx"
	"verifharness/rx"
)

// Closing the wrapped listener while layer4 is still busy with some connection - a client that stalls in the middle of
// its TLS handshake, one that sends nothing - must not keep Accept waiting for that connection: Accept reports closure,
// whether it was already blocked or is called afterwards.
func TestAcceptAfterCloseWithStalledConnections(t *testing.T) {
	hx.StartStallMonitor()
	rapid.Check(t, func(rt *rapid.T) {
		ctx, err := rx.TLSCtx()
		if err != nil {
			rt.Fatalf("tls ctx: %v", err)
		}
		provMu.Lock()
		lw := new(layer4.ListenerWrapper)
		if err = json.Unmarshal(wrapperJSON(), lw); err == nil {
			err = lw.Provision(ctx)
		}
		provMu.Unlock()
		if err != nil {
			rt.Fatalf("provision wrapper: %v", err)
		}
		base, err := hx.Listen("tcp", "127.0.0.1:0")
		if err != nil {
			rt.Fatalf("listen: %v", err)
		}
		ln := lw.WrapListener(base)
		blockedBefore := rapid.Bool().Draw(rt, "acceptAlreadyBlocked")
		res := make(chan error, 1)
		if blockedBefore {
			go func() { _, err := ln.Accept(); res <- err }()
		}
		var clients []net.Conn
		defer func() {
			for _, c := range clients {
				_ = c.Close()
			}
		}()
		var kindsUsed []string
		for i := rapid.IntRange(1, 4).Draw(rt, "stalled"); i > 0; i-- {
			c, err := hx.Dial("tcp", base.Addr().String())
			if err != nil {
				rt.Fatalf("dial: %v", err)
			}
			clients = append(clients, c)
			switch rapid.IntRange(0, 2).Draw(rt, "stallKind") {
			case 0:
				// a complete ClientHello, then silence: the tls handler waits for the rest of the handshake
				_, _ = c.Write(mx.TLSClientHello(&tls.Config{ServerName: "example.com", InsecureSkipVerify: true}))
				kindsUsed = append(kindsUsed, "tls-handshake-stalled")
			case 1:
				kindsUsed = append(kindsUsed, "silent") // nothing at all: matching waits for its timeout (2 s)
			default:
				_, _ = c.Write([]byte("G")) // a route that wants 3000 bytes and gets one
				kindsUsed = append(kindsUsed, "deep-matcher-starved")
			}
		}
		time.Sleep(time.Duration(rapid.IntRange(5, 60).Draw(rt, "closeAfterMs")) * time.Millisecond)
		closedAt := time.Now()
		_ = ln.Close()
		if !blockedBefore {
			go func() { _, err := ln.Accept(); res <- err }()
		}
		desc := fmt.Sprintf("connections still inside layer4 when the listener was closed: %v; Accept already blocked=%v", kindsUsed, blockedBefore)
		select {
		case err := <-res:
			if !errors.Is(err, net.ErrClosed) {
				hx.Fail(rt, "C13", "accept-after-close", "Accept returned %v after Close, want net.ErrClosed\n  %s", err, desc)
				return
			}
		case <-time.After(1500 * time.Millisecond):
			if hx.Punctual(closedAt, 40*time.Millisecond, "C13/lateness-verdict-dropped-after-stall") {
				hx.Fail(rt, "C13", "accept-after-close", "Accept had not reported closure 1.5 s after the listener was closed\n  %s", desc)
			}
			return
		}
		hx.Case(hx.Hash("stalled", desc), true, "C13/close-with-connections-inside-layer4")
		hx.Sample("stalled", map[string]any{"stalled_connections": kindsUsed, "accept_blocked_before_close": blockedBefore})
	})
}
