package c13

import (
	"bytes"
	"encoding/json"
	"fmt"
	"io"
	"net"
	"testing"
	"time"

	"github.com/mholt/caddy-l4/layer4"
	"pgregory.net/rapid"

	"verifharness/hx"
	"verifharness/rx"
)

// Routes whose matchers never look at the stream (remote_ip, local_ip, not) are decided the moment the connection
// arrives. A connection none of them takes goes to the wrapped listener at once, long before the client has sent
// anything; whatever the client sends later - also later than the matching timeout - the consumer must be able to
// read. The consumer arms no deadline of its own here, so that a deadline left behind by matching shows.
func TestHandOverWithoutPrefetch(t *testing.T) {
	rapid.Check(t, func(rt *rapid.T) {
		timeout := time.Duration(rapid.IntRange(60, 200).Draw(rt, "matchingTimeoutMs")) * time.Millisecond
		late := time.Duration(rapid.IntRange(0, 3).Draw(rt, "lateness")) * timeout / 2 // 0 .. 1.5 x the matching timeout
		size := rapid.IntRange(1, 5000).Draw(rt, "size")
		var matchers []map[string]any
		switch rapid.IntRange(0, 2).Draw(rt, "matchers") {
		case 0:
			matchers = []map[string]any{rx.M("remote_ip", map[string]any{"ranges": []string{"203.0.113.0/24"}})}
		case 1:
			matchers = []map[string]any{rx.M("not", []any{map[string]any{"remote_ip": map[string]any{"ranges": []string{"127.0.0.0/8"}}}})}
		default:
			matchers = []map[string]any{rx.M("local_ip", map[string]any{"ranges": []string{"10.9.9.9"}}), rx.M("remote_ip", map[string]any{"ranges": []string{"2001:db8::/32"}})}
		}
		routes := []rx.R{{Match: matchers, Handle: []map[string]any{rx.H("verif_term", "id", "NEVER")}}}
		b, _ := json.Marshal(map[string]any{"routes": routes, "matching_timeout": timeout.String()})
		provMu.Lock()
		lw := new(layer4.ListenerWrapper)
		err := json.Unmarshal(b, lw)
		if err == nil {
			err = lw.Provision(rx.BareCtx())
		}
		provMu.Unlock()
		if err != nil {
			rt.Fatalf("provision wrapper: %v", err)
		}
		base, err := hx.Listen("tcp", "127.0.0.1:0")
		if err != nil {
			rt.Fatalf("listen: %v", err)
		}
		ln := lw.WrapListener(base)
		defer ln.Close()
		stream := hx.Stream(uint64(size), size)
		type res struct {
			data []byte
			err  error
		}
		got := make(chan res, 1)
		go func() {
			c, err := ln.Accept()
			if err != nil {
				got <- res{nil, err}
				return
			}
			defer c.Close()
			data, err := io.ReadAll(c)
			got <- res{data, err}
		}()
		cli, err := hx.Dial("tcp", base.Addr().String())
		if err != nil {
			rt.Fatalf("dial: %v", err)
		}
		defer cli.Close()
		time.Sleep(late)
		_, _ = cli.Write(stream)
		_ = cli.(*net.TCPConn).CloseWrite()
		desc := fmt.Sprintf("matchers %v, matching_timeout %v, the client sends its %d bytes %v after connecting", matchers, timeout, size, late)
		select {
		case r := <-got:
			if r.err != nil || !bytes.Equal(r.data, stream) {
				hx.Fail(rt, "C13", "handed-over-stream", "the consumer behind the wrapped listener read %d of %d bytes (first difference at %d), error %v\n  %s", len(r.data), len(stream), hx.FirstDiff(r.data, stream), r.err, desc)
				return
			}
		case <-time.After(10 * time.Second):
			hx.Fail(rt, "C13", "handed-over-stream", "the consumer behind the wrapped listener had not seen the end of the stream after 10 s\n  %s", desc)
			return
		}
		hx.Case(hx.Hash("noprefetch", desc), late >= timeout, "C13/hand-over-without-prefetch")
		if late >= timeout {
			hx.Sample("noprefetch", map[string]any{"matching_timeout": timeout.String(), "client_sends_after": late.String(), "bytes": size})
		}
	})
}
