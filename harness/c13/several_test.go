package c13

import (
	"bytes"
	"encoding/json"
	"fmt"
	"io"
	"net"
	"sync"
	"testing"
	"time"

	"github.com/mholt/caddy-l4/layer4"
	"pgregory.net/rapid"

	"verifharness/hx"
	"verifharness/rx"
)

// Caddy wraps every listener of a server (one per listen address) with the same listener-wrapper instance. A
// connection that falls through comes out of the Accept of the listener it arrived on - not of a sibling.
func TestOneWrapperSeveralListeners(t *testing.T) {
	rapid.Check(t, func(rt *rapid.T) {
		ctx, err := rx.TLSCtx()
		if err != nil {
			rt.Fatalf("tls ctx: %v", err)
		}
		provMu.Lock()
		lw := new(layer4.ListenerWrapper)
		if err = json.Unmarshal(wrapperJSON(), lw); err == nil {
			err = lw.Provision(ctx)
		}
		provMu.Unlock()
		if err != nil {
			rt.Fatalf("provision wrapper: %v", err)
		}
		nl := rapid.IntRange(2, 3).Draw(rt, "listeners")
		type got struct {
			local string
			data  []byte
		}
		var mu sync.Mutex
		byListener := make([][]got, nl)
		var bases []net.Listener
		var lns []net.Listener
		for i := 0; i < nl; i++ {
			base, err := hx.Listen("tcp", "127.0.0.1:0")
			if err != nil {
				rt.Fatalf("listen: %v", err)
			}
			bases = append(bases, base)
			lns = append(lns, lw.WrapListener(base))
		}
		var readers sync.WaitGroup
		for i, ln := range lns {
			i, ln := i, ln
			go func() {
				for {
					c, err := ln.Accept()
					if err != nil {
						return
					}
					readers.Add(1)
					go func() {
						defer readers.Done()
						defer c.Close()
						_ = c.SetReadDeadline(time.Now().Add(8 * time.Second))
						data, _ := io.ReadAll(c)
						mu.Lock()
						byListener[i] = append(byListener[i], got{c.LocalAddr().String(), data})
						mu.Unlock()
					}()
				}
			}()
		}
		type sent struct {
			listener int
			stream   []byte
		}
		var sents []sent
		for n := rapid.IntRange(2, 8).Draw(rt, "connections"); n > 0; n-- {
			li := rapid.IntRange(0, nl-1).Draw(rt, "via")
			ki := []int{3, 4, 7}[rapid.IntRange(0, 2).Draw(rt, "fallKind")] // fall-through kinds
			k := kinds[ki]
			cp := connPlan{Kind: ki, Size: max(k.depth, k.take+5, 1) + rapid.IntRange(0, 500).Draw(rt, "extra"), Tag: rapid.Uint64().Draw(rt, "tag")}
			s := cp.stream()
			c, err := hx.Dial("tcp", bases[li].Addr().String())
			if err != nil {
				rt.Fatalf("dial: %v", err)
			}
			_, _ = c.Write(s)
			_ = c.(*net.TCPConn).CloseWrite()
			defer c.Close()
			sents = append(sents, sent{li, s[k.take:]})
		}
		total := func() int {
			mu.Lock()
			defer mu.Unlock()
			n := 0
			for _, g := range byListener {
				n += len(g)
			}
			return n
		}
		hx.Eventually(5*time.Second, 5*time.Millisecond, func() bool { return total() >= len(sents) })
		for _, ln := range lns {
			_ = ln.Close()
		}
		readers.Wait()
		mu.Lock()
		defer mu.Unlock()
		desc := fmt.Sprintf("%d listeners wrapped by one wrapper, %d connections", nl, len(sents))
		for i, gs := range byListener {
			for _, g := range gs {
				if g.local != bases[i].Addr().String() {
					hx.Fail(rt, "C13", "delivered-to-another-listener", "the Accept of the listener on %s returned a connection that arrived on %s\n  %s", bases[i].Addr(), g.local, desc)
					return
				}
			}
		}
		for _, s := range sents {
			found := false
			for _, g := range byListener[s.listener] {
				if bytes.Equal(g.data, s.stream) {
					found = true
				}
			}
			if !found {
				hx.Fail(rt, "C13", "not-delivered-to-its-listener", "a connection that arrived on listener %d (%s) and fell through never came out of that listener's Accept with its %d-byte stream\n  %s", s.listener, bases[s.listener].Addr(), len(s.stream), desc)
				return
			}
		}
		hx.Case(hx.Hash("several", desc, fmt.Sprint(sents[0].listener, len(sents[0].stream))), true, "C13/one-wrapper-several-listeners")
	})
}
