package c06

import (
	"bytes"
	"encoding/json"
	"fmt"
	"net/netip"
	"sort"
	"strings"
	"testing"
	"time"

	"github.com/mholt/caddy-l4/layer4"
	"go.uber.org/zap"
	"pgregory.net/rapid"

	"verifharness/hx"
	"verifharness/mx"
	"verifharness/rx"
)

// The router caches 'no' verdicts between matching passes and must drop them
// when a handler has changed what the following matchers see. This test puts
// the real protocol matchers behind the real router: one stream, delivered
// whole and delivered in fragments, must reach the same handler with the same
// bytes.
//
// The relation is only claimed where it follows from the documentation: at most
// one route (behind the stream-changing one) ever says yes on any prefix, and
// once it says yes it keeps saying yes (matchers that insist on an exact length
// legitimately answer differently on a longer prefix). Everything else is
// counted as excluded.

type proto struct {
	name, cfg string
	gen       mx.Gen
}

var routedProtos = []proto{
	{"ssh", `{}`, mx.GenSSH},
	{"xmpp", `{}`, func(t *rapid.T) []byte {
		// namespace first, as the matcher looks for it in the first 50 bytes
		return []byte("<stream:stream xmlns='jabber:client' to='" + rapid.StringMatching("[a-z]{1,12}").Draw(t, "to") + ".example' xmlns:stream='http://etherx.jabber.org/streams' version='1.0'>")
	}},
	{"postgres", `{}`, mx.GenPostgres},
	{"socks4", `{}`, mx.GenSocks4},
	{"socks5", `{}`, mx.GenSocks5},
	{"tls", `{}`, mx.GenTLS},
	{"http", `[]`, mx.GenHTTP1},
	{"rdp", `{}`, mx.GenRDP},
	{"winbox", `{}`, mx.GenWinbox},
	{"dns", `{}`, mx.GenDNSTCP},
}

type routedCase struct {
	Order []int // indices into routedProtos, in route order
	// Alt[i] >= 0: route i has a second, OR'ed matcher set with that protocol's matcher; AltFirst[i]: it is listed first
	Alt      []int
	AltFirst []bool
	PreAt    int // position of the stream-changing route in the list (-1: none)
	Pre      string
	Header   []byte
	Msg      []byte
	From     string
	Splits   [][]int
}

func genHeader(t *rapid.T) []byte {
	v6 := rapid.Bool().Draw(t, "v6")
	ap := func(label string) netip.AddrPort {
		port := uint16(rapid.IntRange(1, 65535).Draw(t, label+"port"))
		if v6 {
			var a [16]byte
			copy(a[:], rapid.SliceOfN(rapid.Byte(), 16, 16).Draw(t, label+"ip6"))
			a[0] = 0x20
			return netip.AddrPortFrom(netip.AddrFrom16(a), port)
		}
		var a [4]byte
		copy(a[:], rapid.SliceOfN(rapid.Byte(), 4, 4).Draw(t, label+"ip4"))
		a[0] = 10
		return netip.AddrPortFrom(netip.AddrFrom4(a), port)
	}
	src, dst := ap("src"), ap("dst")
	if rapid.Bool().Draw(t, "v1") {
		if v6 {
			return mx.ProxyV1("TCP6", src, dst)
		}
		return mx.ProxyV1("TCP4", src, dst)
	}
	fam := byte(1)
	if v6 {
		fam = 2
	}
	return mx.ProxyV2(1, fam, 1, src, dst, nil)
}

func genRouted(t *rapid.T) routedCase {
	var rc routedCase
	n := rapid.IntRange(3, len(routedProtos)).Draw(t, "nroutes")
	perm := rapid.Permutation(seq(len(routedProtos))).Draw(t, "order")
	rc.Order = perm[:n]
	// protocols without a route of their own serve as alternatives in OR'ed matcher sets of the routes
	spare := perm[n:]
	for i := 0; i < n; i++ {
		alt := -1
		if len(spare) > 0 && rapid.IntRange(0, 2).Draw(t, "orSet") == 0 {
			alt, spare = spare[0], spare[1:]
		}
		rc.Alt = append(rc.Alt, alt)
		rc.AltFirst = append(rc.AltFirst, rapid.Bool().Draw(t, "altFirst"))
	}
	rc.PreAt = -1
	switch rapid.IntRange(0, 4).Draw(t, "pre") {
	case 0:
	case 1, 2:
		rc.Pre, rc.Header = "proxy_protocol", genHeader(t)
	default:
		k := rapid.IntRange(1, 40).Draw(t, "takeK")
		rc.Pre = fmt.Sprintf("take%d", k)
		rc.Header = append([]byte{0xEE}, rapid.SliceOfN(rapid.Byte(), k-1, k-1).Draw(t, "junk")...)
	}
	if rc.Pre != "" {
		rc.PreAt = rapid.IntRange(0, min(2, n-1)).Draw(t, "preAt")
	}
	// the message: mostly of a protocol that has a route behind the stream-changing one
	wi := rapid.IntRange(max(rc.PreAt, 0), n-1).Draw(t, "which")
	p := routedProtos[rc.Order[wi]]
	if rc.Alt[wi] >= 0 && rapid.Bool().Draw(t, "viaAlternative") {
		p = routedProtos[rc.Alt[wi]] // the message reaches its route through the alternative set
	}
	if rapid.IntRange(0, 7).Draw(t, "foreign") == 0 {
		p = routedProtos[rapid.IntRange(0, len(routedProtos)-1).Draw(t, "foreignWhich")]
	}
	rc.From = p.name
	// the generators also produce messages their matcher refuses or keeps waiting on; prefer the ones it accepts
	for attempt := 0; attempt < 4; attempt++ {
		rc.Msg = p.gen(t)
		if len(rc.Msg) > 1200 {
			rc.Msg = rc.Msg[:1200]
		}
		if m := routedMatchers[p.name]; m == nil || mx.Eval(m, rc.Msg, nil, false, false).V == mx.Yes {
			break
		}
	}
	if rapid.IntRange(0, 3).Draw(t, "trailing") == 0 {
		rc.Msg = append(append([]byte(nil), rc.Msg...), rapid.SliceOfN(rapid.Byte(), 1, 24).Draw(t, "trail")...)
	}
	total := len(rc.Header) + len(rc.Msg)
	for i := rapid.IntRange(2, 4).Draw(t, "nsplits"); i > 0 && total > 1; i-- {
		var cuts []int
		for j := rapid.IntRange(1, 6).Draw(t, "ncuts"); j > 0; j-- {
			switch rapid.IntRange(0, 3).Draw(t, "cutKind") {
			case 0:
				cuts = append(cuts, rapid.IntRange(1, min(16, total-1)).Draw(t, "early"))
			case 1:
				if h := len(rc.Header); h > 1 {
					cuts = append(cuts, min(total-1, max(1, h+rapid.IntRange(-6, 12).Draw(t, "aroundHeader"))))
					break
				}
				fallthrough
			default:
				cuts = append(cuts, rapid.IntRange(1, total-1).Draw(t, "cut"))
			}
		}
		sort.Ints(cuts)
		rc.Splits = append(rc.Splits, cuts)
	}
	return rc
}

func seq(n int) []int {
	out := make([]int, n)
	for i := range out {
		out[i] = i
	}
	return out
}

func (rc routedCase) routes() []rx.R {
	var out []rx.R
	for i, pi := range rc.Order {
		if i == rc.PreAt {
			if rc.Pre == "proxy_protocol" {
				out = append(out, rx.R{Match: []map[string]any{rx.M("proxy_protocol", map[string]any{})}, Handle: []map[string]any{rx.H("proxy_protocol")}})
			} else {
				out = append(out, rx.R{Match: []map[string]any{rx.M("verif_need", &rx.Need{N: 1, Pos: 0, Val: 0xEE})}, Handle: []map[string]any{rx.H("verif_take", "id", "PRE", "k", len(rc.Header))}})
			}
		}
		p := routedProtos[pi]
		sets := []map[string]any{rx.M(p.name, json.RawMessage(p.cfg))}
		if a := rc.Alt[i]; a >= 0 {
			alt := rx.M(routedProtos[a].name, json.RawMessage(routedProtos[a].cfg))
			if rc.AltFirst[i] {
				sets = []map[string]any{alt, sets[0]}
			} else {
				sets = append(sets, alt)
			}
		}
		out = append(out, rx.R{Match: sets, Handle: []map[string]any{rx.H("verif_term", "id", p.name)}})
	}
	return out
}

type routedOutcome struct {
	reached string
	data    []byte
}

func (o routedOutcome) String() string { return fmt.Sprintf("%s(%d bytes)", o.reached, len(o.data)) }

func deliver(h layer4.Handler, chunks [][]byte) routedOutcome {
	under := hx.NewScriptConn(chunks, hx.EndEOF)
	under.Local, under.Remote = mx.TCPLocal, mx.TCPRemote
	cx := layer4.VerifNewConnection(under, nil, zap.NewNop())
	tr := rx.NewTrace()
	rx.Bind(cx, tr)
	err := h.Handle(cx)
	out := routedOutcome{reached: "nothing"}
	if err != nil {
		out.reached = "error"
	}
	for _, e := range tr.Snapshot() {
		switch e.Kind {
		case "term":
			out = routedOutcome{e.ID, e.Data}
		case "fallback":
			out = routedOutcome{"fallback", e.Data}
		}
	}
	return out
}

var (
	routedMatchers = map[string]layer4.ConnMatcher{}
)

// yesProfile: for which prefixes of s does the matcher say yes? Returns the first such prefix length (-1: never) and
// whether yes persists from there to the whole stream.
func yesProfile(m layer4.ConnMatcher, s []byte) (first int, closed bool, panicked bool) {
	first, closed = -1, true
	for p := 0; p <= len(s); p++ {
		v := mx.Eval(m, s[:p], nil, false, false).V
		if v == mx.Panicked {
			return 0, false, true
		}
		if v == mx.Yes && first < 0 {
			first = p
		}
		if first >= 0 && v != mx.Yes {
			closed = false
		}
	}
	return
}

func TestRoutedFragmentation(t *testing.T) {
	for _, p := range routedProtos {
		routedMatchers[p.name] = mx.MustMatcher(p.name, strings.TrimSpace(p.cfg))
	}
	routedMatchers["proxy_protocol"] = mx.MustMatcher("proxy_protocol", "")
	rapid.Check(t, func(rt *rapid.T) {
		rc := genRouted(rt)
		stream := append(append([]byte(nil), rc.Header...), rc.Msg...)
		// --- is the relation claimed for this case? ---
		// the sets of a route, in the order they are listed: the route's verdict on a prefix is that of the first set that
		// does not say no ("any error terminates matching", and asking for more data is reported as an error)
		setsOf := map[string][]string{"proxy_protocol": {"proxy_protocol"}}
		for i, pi := range rc.Order {
			nm := routedProtos[pi].name
			setsOf[nm] = []string{nm}
			if a := rc.Alt[i]; a >= 0 {
				if rc.AltFirst[i] {
					setsOf[nm] = []string{routedProtos[a].name, nm}
				} else {
					setsOf[nm] = []string{nm, routedProtos[a].name}
				}
			}
		}
		altOf := map[string]bool{}
		for nm, sets := range setsOf {
			altOf[nm] = len(sets) > 1
		}
		matcherErrs := false
		ever := func(name string, s []byte) (bool, bool) {
			first, closed := -1, true
			for p := 0; p <= len(s); p++ {
				v := mx.No
				for _, set := range setsOf[name] {
					sv := mx.Eval(routedMatchers[set], s[:p], nil, false, false).V
					if sv == mx.Panicked {
						return false, false
					}
					if sv == mx.OtherErr || sv == mx.BufferFull {
						// a matcher error ends matching for the connection (fail closed) if and when the router happens to
						// evaluate that matcher on that prefix: which handler is reached then depends on the schedule, by design
						matcherErrs = true
					}
					if sv != mx.No {
						v = sv
						break
					}
				}
				if v == mx.Yes && first < 0 {
					first = p
				}
				if first >= 0 && v != mx.Yes {
					closed = false
				}
			}
			return first >= 0, closed
		}
		behind := rc.Order
		seen := stream
		if rc.Pre != "" {
			// on the stream as the client sends it only the stream-changing route may ever match
			for _, pi := range rc.Order {
				if y, _ := ever(routedProtos[pi].name, stream); y {
					hx.Excluded("C06/routed/ambiguous-before-header-is-stripped")
					return
				}
			}
			if rc.Pre == "proxy_protocol" {
				if y, closed := ever("proxy_protocol", stream); !y || !closed {
					hx.Excluded("C06/routed/header-not-recognised")
					return
				}
			}
			behind, seen = rc.Order[rc.PreAt:], rc.Msg
		} else if y, _ := ever("proxy_protocol", stream); y {
			hx.Excluded("C06/routed/ambiguous")
			return
		}
		winner := ""
		for _, pi := range behind {
			y, closed := ever(routedProtos[pi].name, seen)
			if !y {
				continue
			}
			if winner != "" {
				hx.Excluded("C06/routed/ambiguous")
				return
			}
			if !closed {
				hx.Excluded("C06/routed/length-sensitive-matcher")
				return
			}
			winner = routedProtos[pi].name
		}
		if !matcherErrs {
			// routes in front of the stream-changing one, and routes without a yes, also count
			for _, pi := range rc.Order {
				ever(routedProtos[pi].name, stream)
			}
		}
		if matcherErrs {
			hx.Excluded("C06/routed/some-matcher-reports-an-error-on-some-prefix")
			return
		}
		// --- the relation ---
		rl, err := rx.Routes(rx.BareCtx(), rc.routes())
		if err != nil {
			rt.Fatalf("provision: %v", err)
		}
		h := rx.Compile(rl, 5*time.Second, true)
		whole := deliver(h, [][]byte{stream})
		var names []string
		for i, pi := range rc.Order {
			nm := routedProtos[pi].name
			if a := rc.Alt[i]; a >= 0 {
				if rc.AltFirst[i] {
					nm = "(" + routedProtos[a].name + "|" + nm + ")"
				} else {
					nm = "(" + nm + "|" + routedProtos[a].name + ")"
				}
			}
			names = append(names, nm)
		}
		desc := fmt.Sprintf("routes=%v with %q inserted at %d; stream = %d-byte header + %d-byte %s message: %s", names, rc.Pre, rc.PreAt, len(rc.Header), len(rc.Msg), rc.From, hexs(stream))
		if winner != "" && whole.reached != winner {
			// one delivery schedule among others: the matcher says yes on this stream, nothing else does
			hx.Fail(rt, "C06", "routed/whole-delivery/"+winner, "delivered whole the stream reaches %v, but %s is the only matcher that ever says yes on it\n  %s", whole, winner, desc)
			return
		}
		for _, cuts := range rc.Splits {
			got := deliver(h, hx.Split(stream, cuts))
			if got.reached != whole.reached || !bytes.Equal(got.data, whole.data) {
				hx.Fail(rt, "C06", "routed/fragmentation/"+whole.reached, "delivered whole the stream reaches %v; delivered in fragments cut at %v it reaches %v\n  %s", whole, cuts, got, desc)
				return
			}
		}
		cl := []string{"C06/routed", "C06/routed/reaches/" + whole.reached}
		if altOf[whole.reached] {
			cl = append(cl, "C06/routed/reached-route-has-alternative-sets")
		}
		if winner == "" {
			cl = append(cl, "C06/routed/no-matcher-says-yes/"+rc.From)
		}
		if rc.Pre != "" {
			cl = append(cl, "C06/routed/stream-changed-before-match")
		}
		nontrivial := rc.Pre != "" && winner != ""
		hx.Class("C06/routed/deliveries", int64(1+len(rc.Splits)))
		hx.Case(hx.Hash("routed", desc, fmt.Sprint(rc.Splits)), nontrivial, cl...)
		if nontrivial {
			hx.Sample("routed/"+winner, map[string]any{"routes": names, "pre": rc.Pre, "pre_at": rc.PreAt, "reaches": whole.reached, "splits": rc.Splits, "stream_len": len(stream)})
		}
	})
}
