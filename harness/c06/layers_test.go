package c06

import (
	"errors"
	"fmt"
	"testing"

	"github.com/mholt/caddy-l4/layer4"
	"go.uber.org/zap"
	"pgregory.net/rapid"

	"verifharness/hx"
	"verifharness/mx"
)

// A handler may replace the connection by another layer of it (TLS terminated, a PROXY header stripped); the
// matchers of the following routes are then evaluated on the bytes of the new layer. What a matcher answers there is a
// function of those bytes alone - not of what it, or another matcher, saw on the layer outside.
func TestVerdictAfterLayerChange(t *testing.T) {
	tgs := targets()
	ms := make([]layer4.ConnMatcher, len(tgs))
	for i, tg := range tgs {
		ms[i] = mx.MustMatcher(tg.name, tg.cfg)
	}
	verdict := func(ok bool, err error) mx.Verdict {
		switch {
		case err == nil && ok:
			return mx.Yes
		case err == nil:
			return mx.No
		case errors.Is(err, layer4.ErrConsumedAllPrefetchedBytes):
			return mx.NeedMore
		case errors.Is(err, layer4.ErrMatchingBufferFull):
			return mx.BufferFull
		}
		return mx.OtherErr
	}
	rapid.Check(t, func(rt *rapid.T) {
		i := rapid.IntRange(0, len(tgs)-1).Draw(rt, "matcher")
		tg, m := tgs[i], ms[i]
		// the outer layer is what the shipped layer-changing handlers take: a TLS ClientHello (tls handler) or a PROXY
		// header (proxy_protocol handler). (Other outer streams are never followed by a change of layer, and matchers
		// may rely on that: the http matcher keeps the request it parsed for the http matchers of later routes.)
		outer := []mx.Gen{mx.GenTLS, mx.GenTLS, mx.GenProxyProto}[rapid.IntRange(0, 2).Draw(rt, "outerGen")](rt)
		// the inner layer carries anything: a message of the matcher's own protocol, or of another one
		src := tg
		if rapid.Bool().Draw(rt, "otherProtocol") {
			src = tgs[rapid.IntRange(0, len(tgs)-1).Draw(rt, "innerTarget")]
		}
		inner := src.gens[rapid.IntRange(0, len(src.gens)-1).Draw(rt, "innerGen")](rt)
		if len(outer) > 1500 {
			outer = outer[:1500]
		}
		if len(inner) > 1500 {
			inner = inner[:1500]
		}
		under := hx.NewScriptConn(nil, hx.EndEOF)
		under.Local, under.Remote = mx.TCPLocal, mx.TCPRemote
		cx := layer4.VerifNewConnection(under, outer, zap.NewNop())
		var vOuter mx.Verdict
		if p := func() (p any) {
			defer func() { p = recover() }()
			vOuter = verdict(layer4.MatcherSet{m}.Match(cx))
			return nil
		}(); p != nil {
			hx.Excluded("panic-is-C04")
			return
		}
		// the new layer: its bytes arrive in one read
		in := hx.NewScriptConn([][]byte{inner}, hx.EndEOF)
		in.Local, in.Remote = mx.TCPLocal, mx.TCPRemote
		cx2 := cx.Wrap(in)
		if len(inner) > 0 {
			if err := cx2.VerifPrefetch(); err != nil {
				rt.Fatalf("prefetch on the new layer: %v", err)
			}
		}
		var got mx.Verdict
		if p := func() (p any) {
			defer func() { p = recover() }()
			got = verdict(layer4.MatcherSet{m}.Match(cx2))
			return nil
		}(); p != nil {
			hx.Excluded("panic-is-C04")
			return
		}
		want := mx.Eval(m, inner, nil, false, false).V
		if want == mx.Panicked {
			hx.Excluded("panic-is-C04")
			return
		}
		if got != want {
			hx.Fail(rt, "C06", "verdict-depends-on-outer-layer/"+tg.name, "matcher %s answered %q on the outer layer's bytes; on the new layer of the same connection it answers %q, on a fresh connection holding the same %d bytes %q\n  outer=%s\n  inner=%s",
				tg.label(), vOuter.String(), got.String(), len(inner), want.String(), hexs(outer), hexs(inner))
			return
		}
		hx.Case(hx.Hash("layers", tg.label(), outer, inner), vOuter == mx.Yes && want != mx.Yes, "C06/layer-change", fmt.Sprintf("C06/layer-change/outer-%s-inner-%s", vOuter.String(), want.String()))
	})
}
