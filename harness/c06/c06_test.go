// C06 — matchers are pure functions of the prefix, insensitive to fragmentation.
package c06

import (
	"bytes"
	"encoding/hex"
	"errors"
	"fmt"
	"io"
	"testing"

	"go.uber.org/zap"
	"pgregory.net/rapid"

	"github.com/mholt/caddy-l4/layer4"

	"verifharness/hx"
	"verifharness/mx"
)

func TestMain(m *testing.M) { hx.Main(m) }

type target struct {
	name string
	cfg  string
	gens []mx.Gen
}

func (tg target) label() string { return tg.name + "/" + tg.cfg }

var ovpnKeyHex = hex.EncodeToString(mx.OVPNKey.KeyBytes)

// stream-oriented matchers only (DNS and OpenVPN with a TCP local address)
func targets() []target {
	g := func(gs ...mx.Gen) []mx.Gen { return gs }
	return []target{
		{"ssh", "", g(mx.GenSSH)},
		{"xmpp", "", g(mx.GenXMPP)},
		{"postgres", "", g(mx.GenPostgres)},
		{"socks4", "", g(mx.GenSocks4)},
		{"socks4", `{"commands":["CONNECT"],"ports":[80,443],"networks":["10.0.0.0/8"]}`, g(mx.GenSocks4)},
		{"socks5", "", g(mx.GenSocks5)},
		{"socks5", `{"auth_methods":[0,2]}`, g(mx.GenSocks5)},
		{"socks5", `{"auth_methods":[1,2]}`, g(mx.GenSocks5)},
		{"proxy_protocol", "", g(mx.GenProxyProto)},
		{"regexp", `{"pattern":"^(GET|POST) /","count":6}`, g(mx.GenHTTP1)},
		{"regexp", `{"pattern":"HTTP/1","count":40}`, g(mx.GenHTTP1)},
		{"dns", "", g(mx.GenDNSTCP)},
		{"dns", `{"allow":[{"type":"A"},{"name_regexp":"^a"}],"deny":[{"class":"CH"}]}`, g(mx.GenDNSTCP)},
		{"rdp", "", g(mx.GenRDP)},
		{"rdp", `{"cookie_hash_regexp":"^[a-m]"}`, g(mx.GenRDP)},
		{"rdp", `{"cookie_ips":["0.0.0.0/1"],"cookie_ports":[3389]}`, g(mx.GenRDP)},
		{"openvpn", "", g(mx.GenOVPNTCP)},
		{"openvpn", `{"modes":["auth","crypt"],"group_key":"` + ovpnKeyHex + `","ignore_timestamp":true}`, g(mx.GenOVPNTCP)},
		{"openvpn", `{"modes":["crypt2"],"ignore_crypto":true,"ignore_timestamp":true}`, g(mx.GenOVPNTCP)},
		{"winbox", "", g(mx.GenWinbox)},
		{"winbox", `{"modes":["standard"]}`, g(mx.GenWinbox)},
		{"http", `[]`, g(mx.GenHTTP1, mx.GenH2)},
		{"http", `[{"host":["*.example.com"]}]`, g(mx.GenHTTP1, mx.GenH2)},
		{"http", `[{"path":["/a*"]},{"method":["POST"]}]`, g(mx.GenHTTP1, mx.GenH2)},
		{"tls", "", g(mx.GenTLS)},
		{"tls", `{"sni":["example.com"]}`, g(mx.GenTLS)},
		{"tls", `{"alpn":["h2"]}`, g(mx.GenTLS)},
		{"not", `[{"ssh":{}}]`, g(mx.GenSSH, mx.GenHTTP1)},
		{"not", `[{"tls":{},"postgres":{}}]`, g(mx.GenTLS, mx.GenPostgres)},
	}
}

type outcome struct {
	v   mx.Verdict
	err error
}

// evalPrefix evaluates m on a fresh connection holding stream[:p] in its
// matching buffer while the underlying conn would deliver stream[p:]. It
// applies the per-evaluation oracles (no network read, repeatable verdict,
// stream unchanged for later readers) and returns the verdict.
func evalPrefix(t hx.TB, tg target, m layer4.ConnMatcher, stream []byte, p int) (outcome, bool) {
	under := hx.NewScriptConn([][]byte{stream[p:]}, hx.EndEOF)
	under.Local, under.Remote = mx.TCPLocal, mx.TCPRemote
	cx := layer4.VerifNewConnection(under, stream[:p], zap.NewNop())
	run := func() (o outcome, pan any) {
		defer func() { pan = recover() }()
		ok, err := layer4.MatcherSet{m}.Match(cx)
		o.err = err
		switch {
		case err == nil && ok:
			o.v = mx.Yes
		case err == nil:
			o.v = mx.No
		case errors.Is(err, layer4.ErrConsumedAllPrefetchedBytes):
			o.v = mx.NeedMore
		case errors.Is(err, layer4.ErrMatchingBufferFull):
			o.v = mx.BufferFull
		default:
			o.v = mx.OtherErr
		}
		return
	}
	o1, pan := run()
	if pan != nil {
		// a panic is C04's business; it is reported there. Skip the case here.
		hx.Excluded("panic-is-C04")
		return o1, false
	}
	if reads, _, _ := under.Snapshot(); reads != 0 {
		hx.Fail(t, "C06", "network-read/"+tg.name, "matcher %s read from the network %d time(s) while matching a %d-byte prefix\nstream=%s", tg.label(), reads, p, hexs(stream))
		return o1, false
	}
	o2, pan := run()
	if pan != nil || o2.v != o1.v {
		hx.Fail(t, "C06", "not-repeatable/"+tg.name, "matcher %s gave %s then %s (panic=%v) on the same %d-byte prefix\nstream=%s", tg.label(), o1.v, o2.v, pan, p, hexs(stream))
		return o1, false
	}
	got, err := io.ReadAll(cx)
	if err != nil || !bytes.Equal(got, stream) {
		hx.Fail(t, "C06", "stream-changed/"+tg.name, "after matcher %s (verdict %s on a %d-byte prefix) the connection yields %d bytes, first difference at %d (err=%v), want the %d-byte stream\nstream=%s",
			tg.label(), o1.v, p, len(got), hx.FirstDiff(got, stream), err, len(stream), hexs(stream))
		return o1, false
	}
	return o1, true
}

func hexs(b []byte) string {
	if len(b) > 700 {
		return hex.EncodeToString(b[:700]) + fmt.Sprintf("...(%d bytes)", len(b))
	}
	return hex.EncodeToString(b)
}

// checkStream walks the prefix lattice of one stream.
func checkStream(t hx.TB, tg target, m layer4.ConnMatcher, stream []byte, msgLen int, class string) {
	verdicts := make([]mx.Verdict, len(stream)+1)
	firstNo, regions := -1, 0
	sawNeedMoreBeforeNo := false
	for p := 0; p <= len(stream); p++ {
		o, ok := evalPrefix(t, tg, m, stream, p)
		if !ok {
			return
		}
		verdicts[p] = o.v
		if p == 0 || verdicts[p] != verdicts[p-1] {
			regions++
		}
		if firstNo >= 0 && o.v != mx.No {
			hx.Fail(t, "C06", "no-then-"+o.v.String()+"/"+tg.name, "matcher %s answered \"no\" on the %d-byte prefix but %q on the longer %d-byte prefix\nstream=%s",
				tg.label(), firstNo, o.v.String(), p, hexs(stream))
			return
		}
		if o.v == mx.No && firstNo < 0 {
			firstNo = p
			for q := 0; q < p; q++ {
				if verdicts[q] == mx.NeedMore {
					sawNeedMoreBeforeNo = true
				}
			}
		}
	}
	// a message that matches when delivered whole is never rejected on a proper prefix
	full := verdicts[msgLen]
	if full == mx.Yes {
		for p := 0; p < msgLen; p++ {
			if verdicts[p] != mx.Yes && verdicts[p] != mx.NeedMore {
				hx.Fail(t, "C06", "fragment-rejected/"+tg.name, "matcher %s matches the whole %d-byte message but answers %q (not \"need more\") on its %d-byte proper prefix\nmessage=%s",
					tg.label(), msgLen, verdicts[p].String(), p, hexs(stream[:msgLen]))
				return
			}
		}
	}
	nontrivial := (full == mx.Yes && regions >= 3) || (class == "mutated" && firstNo >= 0 && sawNeedMoreBeforeNo)
	cl := []string{"C06/" + class, "C06/matcher/" + tg.name, fmt.Sprintf("C06/full-verdict/%s", full)}
	if full == mx.Yes {
		cl = append(cl, "C06/full-match")
	}
	hx.Class("C06/prefix-evaluations", int64(len(stream)+1))
	hx.Case(hx.Hash(tg.label(), stream, msgLen), nontrivial, cl...)
	if nontrivial {
		hx.Sample(tg.name+"/"+class, map[string]any{"matcher": tg.label(), "class": class, "message_len": msgLen, "stream_len": len(stream),
			"stream_hex": hexs(stream[:min(len(stream), 48)]), "verdict_regions": regionString(verdicts)})
	}
}

func regionString(v []mx.Verdict) string {
	var sb bytes.Buffer
	start := 0
	for i := 1; i <= len(v); i++ {
		if i == len(v) || v[i] != v[start] {
			fmt.Fprintf(&sb, "[%d..%d]=%s ", start, i-1, v[start])
			start = i
		}
	}
	return sb.String()
}

func TestPrefixLattice(t *testing.T) {
	for _, tg := range targets() {
		tg := tg
		m, err := mx.NewMatcher(tg.name, tg.cfg)
		if err != nil {
			t.Fatalf("provision %s: %v", tg.label(), err)
		}
		t.Run(tg.label(), func(t *testing.T) {
			rapid.Check(t, func(rt *rapid.T) {
				g := tg.gens[rapid.IntRange(0, len(tg.gens)-1).Draw(rt, "gen")]
				msg := g(rt)
				class := "well-formed"
				if rapid.IntRange(0, 3).Draw(rt, "mutate") == 0 {
					msg, class = mx.Mutate(rt, msg), "mutated"
				}
				if len(msg) > 1024 {
					msg = msg[:1024]
				}
				stream := msg
				if rapid.Bool().Draw(rt, "trailing") {
					stream = append(append([]byte(nil), msg...), rapid.SliceOfN(rapid.Byte(), 1, 24).Draw(rt, "trail")...)
				}
				checkStream(rt, tg, m, stream, len(msg), class)
			})
		})
	}
}

// ---- replay tier ----

func TestReplay(t *testing.T) {
	n := 0
	for _, rc := range hx.LoadReplays("C06") {
		m, err := mx.NewMatcher(rc["matcher"], rc["cfg"])
		if err != nil {
			t.Fatalf("%s: %v", rc["_file"], err)
		}
		stream, err := hex.DecodeString(rc["stream_hex"])
		if err != nil {
			t.Fatal(err)
		}
		msgLen := len(stream)
		fmt.Sscan(rc["message_len"], &msgLen)
		checkStream(t, target{name: rc["matcher"], cfg: rc["cfg"]}, m, stream, msgLen, "replay")
		n++
	}
	hx.Class("C06/replay-files", int64(n))
}

// ---- several matchers in one set: each must see the same bytes ----

// TestMatcherSetsCompose: the verdict of a set [m1, m2] on a prefix must be the
// AND composition of the verdicts m1 and m2 give alone on that same prefix
// (m1's verdict unless it is yes, else m2's): evaluating m1 must not change
// what m2 reads. Also covers `not` around a stream matcher.
func TestMatcherSetsCompose(t *testing.T) {
	tgs := targets()
	ms := make([]layer4.ConnMatcher, len(tgs))
	for i, tg := range tgs {
		ms[i] = mx.MustMatcher(tg.name, tg.cfg)
	}
	single := func(m layer4.ConnMatcher, stream []byte, p int) mx.Verdict {
		return mx.Eval(m, stream[:p], stream[p:], false, false).V
	}
	rapid.Check(t, func(rt *rapid.T) {
		i := rapid.IntRange(0, len(tgs)-1).Draw(rt, "m1")
		j := rapid.IntRange(0, len(tgs)-1).Draw(rt, "m2")
		src := tgs[i]
		if rapid.Bool().Draw(rt, "streamFromSecond") {
			src = tgs[j]
		}
		msg := src.gens[rapid.IntRange(0, len(src.gens)-1).Draw(rt, "gen")](rt)
		if len(msg) > 600 {
			msg = msg[:600]
		}
		set := layer4.MatcherSet{ms[i], ms[j]}
		label := tgs[i].label() + " & " + tgs[j].label()
		interesting := false
		for p := 0; p <= len(msg); p++ {
			v1, v2 := single(ms[i], msg, p), single(ms[j], msg, p)
			if v1 == mx.Panicked || v2 == mx.Panicked {
				hx.Excluded("panic-is-C04")
				return
			}
			want := v1
			if v1 == mx.Yes {
				want = v2
				interesting = true
			}
			under := hx.NewScriptConn([][]byte{msg[p:]}, hx.EndEOF)
			under.Local, under.Remote = mx.TCPLocal, mx.TCPRemote
			cx := layer4.VerifNewConnection(under, msg[:p], zap.NewNop())
			ok, err := set.Match(cx)
			got := mx.No
			switch {
			case err == nil && ok:
				got = mx.Yes
			case err == nil:
			case errors.Is(err, layer4.ErrConsumedAllPrefetchedBytes):
				got = mx.NeedMore
			case errors.Is(err, layer4.ErrMatchingBufferFull):
				got = mx.BufferFull
			default:
				got = mx.OtherErr
			}
			if got != want {
				hx.Fail(rt, "C06", "set-composition", "matcher set [%s] answers %q on the %d-byte prefix, but alone the matchers answer %q and %q (the first matcher changed what the second reads?)\nstream=%s",
					label, got.String(), p, v1.String(), v2.String(), hexs(msg))
				return
			}
			if rest, err := io.ReadAll(cx); err != nil || !bytes.Equal(rest, msg) {
				hx.Fail(rt, "C06", "stream-changed/set", "after matcher set [%s] on a %d-byte prefix the connection yields %d bytes (first difference at %d), want the %d-byte stream\nstream=%s",
					label, p, len(rest), hx.FirstDiff(rest, msg), len(msg), hexs(msg))
				return
			}
		}
		hx.Class("C06/prefix-evaluations", int64(3*(len(msg)+1)))
		hx.Case(hx.Hash("set", label, msg), interesting, "C06/matcher-set-of-two")
		if interesting {
			hx.Sample("set/"+tgs[i].name, map[string]any{"set": label, "stream_len": len(msg), "stream_hex": hexs(msg[:min(len(msg), 40)])})
		}
	})
}
