// C18 — wire-message codecs (OpenVPN, WireGuard, Winbox, RDP) are exact inverses.
package c18

import (
	"bytes"
	"encoding/base64"
	"encoding/binary"
	"encoding/hex"
	"fmt"
	"reflect"
	"testing"

	"pgregory.net/rapid"

	ovpn "github.com/mholt/caddy-l4/modules/l4openvpn"
	rdp "github.com/mholt/caddy-l4/modules/l4rdp"
	winbox "github.com/mholt/caddy-l4/modules/l4winbox"
	wg "github.com/mholt/caddy-l4/modules/l4wireguard"

	"verifharness/hx"
)

func TestMain(m *testing.M) { hx.Main(m) }

// codec describes one parser/serialiser pair over bytes.
type codec struct {
	name     string
	min, max int // accepted length bounds according to the wire definition (max<0: unbounded)
	// parse returns a serialiser for the parsed value, or an error.
	parse func(b []byte) (func() ([]byte, error), error)
	// shape rewrites random bytes of a plausible length into a structurally acceptable input (may be nil).
	shape func(t *rapid.T, b []byte) []byte
}

func safely(f func()) (p any) {
	defer func() { p = recover() }()
	f()
	return nil
}

func codecs() []codec {
	return []codec{
		{name: "openvpn.MessageHeader", min: 1, max: 1, parse: func(b []byte) (func() ([]byte, error), error) {
			m := &ovpn.MessageHeader{}
			if err := m.FromBytes(b); err != nil {
				return nil, err
			}
			return func() ([]byte, error) { return m.ToBytes(), nil }, nil
		}},
		{name: "openvpn.MessagePlain", min: ovpn.MessagePlainBytesTotal, max: ovpn.MessagePlainBytesTotal, shape: shapeOpcode(ovpn.OpcodeControlHardResetClientV2),
			parse: func(b []byte) (func() ([]byte, error), error) {
				m := &ovpn.MessagePlain{}
				if err := m.FromBytes(b); err != nil {
					return nil, err
				}
				return func() ([]byte, error) { return m.ToBytes(), nil }, nil
			}},
		{name: "openvpn.MessagePlain.Headless", min: ovpn.MessagePlainBytesTotalHL, max: ovpn.MessagePlainBytesTotalHL,
			parse: func(b []byte) (func() ([]byte, error), error) {
				m := &ovpn.MessagePlain{}
				h := &ovpn.MessageHeader{Opcode: ovpn.OpcodeControlHardResetClientV2}
				if err := m.FromBytesHeadless(b, h); err != nil {
					return nil, err
				}
				return func() ([]byte, error) { return m.ToBytes()[ovpn.OpcodeKeyIDBytesTotal:], nil }, nil
			}},
		{name: "openvpn.MessageAuth", min: ovpn.MessageAuthBytesMin, max: ovpn.MessageAuthBytesMax, shape: shapeOpcode(ovpn.OpcodeControlHardResetClientV2),
			parse: func(b []byte) (func() ([]byte, error), error) {
				m := &ovpn.MessageAuth{}
				if err := m.FromBytes(b); err != nil {
					return nil, err
				}
				return func() ([]byte, error) { return m.ToBytes(), nil }, nil
			}},
		{name: "openvpn.MessageAuth.Headless", min: ovpn.MessageAuthBytesMinHL, max: ovpn.MessageAuthBytesMaxHL,
			parse: func(b []byte) (func() ([]byte, error), error) {
				m := &ovpn.MessageAuth{}
				h := &ovpn.MessageHeader{Opcode: ovpn.OpcodeControlHardResetClientV2}
				if err := m.FromBytesHeadless(b, h); err != nil {
					return nil, err
				}
				return func() ([]byte, error) { return m.ToBytes()[ovpn.OpcodeKeyIDBytesTotal:], nil }, nil
			}},
		{name: "openvpn.MessageCrypt", min: ovpn.MessageCryptBytesTotal, max: ovpn.MessageCryptBytesTotal, shape: shapeOpcode(ovpn.OpcodeControlHardResetClientV2),
			parse: func(b []byte) (func() ([]byte, error), error) {
				m := &ovpn.MessageCrypt{}
				if err := m.FromBytes(b); err != nil {
					return nil, err
				}
				return func() ([]byte, error) { return m.ToBytes(), nil }, nil
			}},
		{name: "openvpn.MessageCrypt2", min: ovpn.MessageCrypt2BytesMin, max: ovpn.MessageCrypt2BytesMax,
			shape: func(t *rapid.T, b []byte) []byte {
				b = shapeOpcode(ovpn.OpcodeControlHardResetClientV3)(t, b)
				if len(b) >= ovpn.MessageCryptBytesTotal+2 && rapid.IntRange(0, 9).Draw(t, "keepBadLen") != 0 {
					binary.BigEndian.PutUint16(b[len(b)-2:], uint16(len(b)-ovpn.MessageCryptBytesTotal))
				}
				return b
			},
			parse: func(b []byte) (func() ([]byte, error), error) {
				m := &ovpn.MessageCrypt2{}
				if err := m.FromBytes(b); err != nil {
					return nil, err
				}
				return func() ([]byte, error) { return m.ToBytes(), nil }, nil
			}},
		{name: "openvpn.WrappedKey", min: ovpn.WrappedKeyBytesMin, max: ovpn.WrappedKeyBytesMax,
			shape: func(t *rapid.T, b []byte) []byte {
				if len(b) >= 2 && rapid.IntRange(0, 9).Draw(t, "keepBadLen") != 0 {
					binary.BigEndian.PutUint16(b[len(b)-2:], uint16(len(b)))
				}
				return b
			},
			parse: func(b []byte) (func() ([]byte, error), error) {
				m := &ovpn.WrappedKey{}
				if err := m.FromBytes(b); err != nil {
					return nil, err
				}
				return func() ([]byte, error) { return m.ToBytes(), nil }, nil
			}},
		{name: "wireguard.MessageInitiation", min: wg.MessageInitiationBytesTotal, max: wg.MessageInitiationBytesTotal,
			parse: func(b []byte) (func() ([]byte, error), error) {
				m := &wg.MessageInitiation{}
				if err := m.FromBytes(b); err != nil {
					return nil, err
				}
				return m.ToBytes, nil
			}},
		{name: "wireguard.MessageTransport", min: 16, max: -1,
			parse: func(b []byte) (func() ([]byte, error), error) {
				m := &wg.MessageTransport{}
				if err := m.FromBytes(b); err != nil {
					return nil, err
				}
				return m.ToBytes, nil
			}},
		// no upper bound is asserted: the protocol documents no maximum user-name length (the module's 255 is a
		// matcher-side assumption), and over-long names are parsed and serialised faithfully, not truncated
		{name: "winbox.MessageAuth", min: winbox.MessageAuthBytesMin, max: -1, shape: shapeWinbox,
			parse: func(b []byte) (func() ([]byte, error), error) {
				m := &winbox.MessageAuth{}
				if err := m.FromBytes(b); err != nil {
					return nil, err
				}
				return func() ([]byte, error) { return m.ToBytes(), nil }, nil
			}},
		{name: "rdp.TPKTHeader", min: int(rdp.TPKTHeaderBytesTotal), max: int(rdp.TPKTHeaderBytesTotal),
			parse: func(b []byte) (func() ([]byte, error), error) {
				m := &rdp.TPKTHeader{}
				if err := m.FromBytes(b); err != nil {
					return nil, err
				}
				return m.ToBytes, nil
			}},
		{name: "rdp.X224Crq", min: int(rdp.X224CrqBytesTotal), max: int(rdp.X224CrqBytesTotal),
			parse: func(b []byte) (func() ([]byte, error), error) {
				m := &rdp.X224Crq{}
				if err := m.FromBytes(b); err != nil {
					return nil, err
				}
				return m.ToBytes, nil
			}},
		{name: "rdp.RDPNegReq", min: int(rdp.RDPNegReqBytesTotal), max: int(rdp.RDPNegReqBytesTotal),
			parse: func(b []byte) (func() ([]byte, error), error) {
				m := &rdp.RDPNegReq{}
				if err := m.FromBytes(b); err != nil {
					return nil, err
				}
				return m.ToBytes, nil
			}},
		{name: "rdp.RDPCorrInfo", min: int(rdp.RDPCorrInfoBytesTotal), max: int(rdp.RDPCorrInfoBytesTotal),
			parse: func(b []byte) (func() ([]byte, error), error) {
				m := &rdp.RDPCorrInfo{}
				if err := m.FromBytes(b); err != nil {
					return nil, err
				}
				return m.ToBytes, nil
			}},
		{name: "rdp.RDPToken", min: int(rdp.RDPTokenBytesMin), max: -1,
			parse: func(b []byte) (func() ([]byte, error), error) {
				m := &rdp.RDPToken{}
				if err := m.FromBytes(b); err != nil {
					return nil, err
				}
				return m.ToBytes, nil
			}},
	}
}

func shapeOpcode(op uint8) func(*rapid.T, []byte) []byte {
	return func(t *rapid.T, b []byte) []byte {
		if len(b) > 0 && rapid.IntRange(0, 9).Draw(t, "keepOpcode") != 0 {
			b[0] = op<<3 | b[0]&7
		}
		return b
	}
}

// shapeWinbox turns random bytes into a chunked message with a plausible user name.
func shapeWinbox(t *rapid.T, b []byte) []byte {
	if rapid.IntRange(0, 4).Draw(t, "rawWinbox") == 0 || len(b) < 4 {
		return b
	}
	// body = user 0x00 key parity, re-chunked by hand; then padded/cut to len(b) to visit wrong lengths
	ulen := rapid.IntRange(1, 257).Draw(t, "ulen")
	body := bytes.Repeat([]byte{'u'}, ulen)
	if rapid.Bool().Draw(t, "romon") {
		body = append(body, "+r"...)
	}
	body = append(body, 0)
	body = append(body, b[:min(len(b), 32)]...)
	for len(body) < ulen+1+32 {
		body = append(body, 7)
	}
	body = append(body, byte(rapid.IntRange(0, 2).Draw(t, "parity")))
	// chunks of 255 bytes, the last one shorter - or, one time in four, cut elsewhere: a framing the serialiser never
	// produces, which the parser may refuse but must not accept as if it were the canonical one
	step := 255
	if rapid.IntRange(0, 3).Draw(t, "shortChunks") == 0 {
		step = rapid.IntRange(1, 254).Draw(t, "chunkStep")
	}
	var out []byte
	for i := 0; i < len(body); {
		end := min(i+step, len(body))
		typ := byte(0xFF)
		if i == 0 {
			typ = 0x06
		}
		out = append(out, byte(end-i), typ)
		out = append(out, body[i:end]...)
		i = end
		if step != 255 && rapid.Bool().Draw(t, "restCanonical") {
			step = 255
		}
	}
	switch rapid.IntRange(0, 5).Draw(t, "tail") {
	case 0:
		out = append(out, b[:min(len(b), rapid.IntRange(1, 4).Draw(t, "extra"))]...)
	case 1:
		if len(out) > 1 {
			out = out[:len(out)-rapid.IntRange(1, min(3, len(out)-1)).Draw(t, "short")]
		}
	}
	return out
}

// checkBytes is the oracle for one byte string: never panic; if accepted,
// serialising the parsed value reproduces the bytes exactly; lengths outside
// the definition's bounds are rejected.
func checkBytes(t hx.TB, c codec, b []byte, class string) {
	var ser func() ([]byte, error)
	var err error
	if p := safely(func() { ser, err = c.parse(b) }); p != nil {
		hx.Fail(t, "C18", "panic/"+c.name, "%s.FromBytes panicked on %d bytes: %v\ninput=%s", c.name, len(b), p, hex.EncodeToString(b))
		return
	}
	accepted := err == nil
	outOfBounds := len(b) < c.min || (c.max >= 0 && len(b) > c.max)
	if accepted && outOfBounds {
		hx.Fail(t, "C18", "wrong-length-accepted/"+c.name, "%s.FromBytes accepted %d bytes (definition: %d..%d) instead of rejecting\ninput=%s", c.name, len(b), c.min, c.max, hex.EncodeToString(b))
		return
	}
	if accepted {
		var out []byte
		var serr error
		if p := safely(func() { out, serr = ser() }); p != nil {
			hx.Fail(t, "C18", "panic/"+c.name, "%s.ToBytes panicked after parsing %s: %v", c.name, hex.EncodeToString(b), p)
			return
		}
		if serr != nil || !bytes.Equal(out, b) {
			hx.Fail(t, "C18", "roundtrip-bytes/"+c.name, "%s: parse then serialise does not reproduce the input (err=%v)\ninput (%d)=%s\noutput(%d)=%s", c.name, serr, len(b), hex.EncodeToString(b), len(out), hex.EncodeToString(out))
			return
		}
	}
	near := len(b) >= c.min-3 && len(b) <= c.min+3 || (c.max >= 0 && len(b) >= c.max-3 && len(b) <= c.max+3)
	nontrivial := accepted || near
	acc := "rejected"
	if accepted {
		acc = "accepted"
	}
	hx.Case(hx.Hash(c.name, b), nontrivial, "C18/"+class, "C18/"+acc, "C18/codec/"+c.name+"/"+acc)
	if nontrivial {
		hx.Sample(c.name+"/"+acc, map[string]any{"codec": c.name, "len": len(b), "accepted": accepted, "input_hex": hex.EncodeToString(b[:min(len(b), 40)])})
	}
}

func drawLen(t *rapid.T, c codec) int {
	hi := c.max
	if hi < 0 {
		hi = c.min + 300
	}
	switch rapid.IntRange(0, 5).Draw(t, "lenKind") {
	case 0:
		return rapid.IntRange(0, c.min+3).Draw(t, "lenLow")
	case 1:
		return rapid.IntRange(max(0, hi-3), hi+3).Draw(t, "lenHigh")
	case 2:
		return rapid.IntRange(max(0, c.min-3), c.min+3).Draw(t, "lenMin")
	default:
		return rapid.IntRange(c.min, hi).Draw(t, "lenIn")
	}
}

func TestParseThenSerialise(t *testing.T) {
	for _, c := range codecs() {
		c := c
		t.Run(c.name, func(t *testing.T) {
			rapid.Check(t, func(rt *rapid.T) {
				n := drawLen(rt, c)
				b := rapid.SliceOfN(rapid.Byte(), n, n).Draw(rt, "bytes")
				class := "random-bytes"
				if c.shape != nil {
					b = c.shape(rt, append([]byte(nil), b...))
					class = "shaped-bytes"
				}
				// the OpenVPN auth message is only accepted for HMAC sizes of a known digest: steer towards them
				if c.name == "openvpn.MessageAuth" || c.name == "openvpn.MessageAuth.Headless" {
					if rapid.IntRange(0, 3).Draw(rt, "steer") != 0 {
						hl := ovpn.AuthDigestSizes[rapid.IntRange(0, len(ovpn.AuthDigestSizes)-1).Draw(rt, "hmacSize")]
						want := c.min - ovpn.AuthHMACBytesMin + hl
						nb := make([]byte, want)
						copy(nb, b)
						b = nb
						if c.shape != nil {
							b = c.shape(rt, b)
						}
					}
				}
				checkBytes(rt, c, b, class)
			})
		})
	}
}

// TestEveryLengthAroundBounds enumerates every length 0..max+3 (bounded codecs)
// with content that is otherwise acceptable.
func TestEveryLengthAroundBounds(t *testing.T) {
	for _, c := range codecs() {
		hi := c.max
		if hi < 0 {
			hi = c.min + 40
		}
		for n := 0; n <= hi+3; n++ {
			b := make([]byte, n)
			for i := range b {
				b[i] = byte(i*31 + 7)
			}
			switch {
			case c.name == "openvpn.MessageCrypt2" && n >= ovpn.MessageCryptBytesTotal+2:
				b[0] = ovpn.OpcodeControlHardResetClientV3 << 3
				binary.BigEndian.PutUint16(b[n-2:], uint16(n-ovpn.MessageCryptBytesTotal))
			case c.name == "openvpn.WrappedKey" && n >= 2:
				binary.BigEndian.PutUint16(b[n-2:], uint16(n))
			case n > 0 && (c.name == "openvpn.MessagePlain" || c.name == "openvpn.MessageAuth" || c.name == "openvpn.MessageCrypt"):
				b[0] = ovpn.OpcodeControlHardResetClientV2 << 3
			}
			checkBytes(t, c, b, "every-length")
		}
	}
	// winbox: every total length for every user-name length with exact / surplus / missing bytes
	wc := codecs()[10]
	if wc.name != "winbox.MessageAuth" {
		t.Fatal("codec table order changed")
	}
	for ulen := 1; ulen <= 258; ulen++ {
		msg := winboxBytes(bytes.Repeat([]byte{'a'}, ulen), make([]byte, 32), 1)
		for d := -3; d <= 3; d++ {
			b := msg
			if d < 0 {
				b = msg[:len(msg)+d]
			} else if d > 0 {
				b = append(append([]byte(nil), msg...), make([]byte, d)...)
			}
			checkBytes(t, wc, b, "every-length")
		}
	}
}

func winboxBytes(user, key []byte, parity byte) []byte {
	body := append(append(append([]byte(nil), user...), 0), key...)
	body = append(body, parity)
	var out []byte
	for i := 0; i < len(body); i += 255 {
		end := min(i+255, len(body))
		typ := byte(0xFF)
		if i == 0 {
			typ = 0x06
		}
		out = append(out, byte(end-i), typ)
		out = append(out, body[i:end]...)
	}
	return out
}

// ---------- serialise then parse: messages over full field ranges ----------

func eqBytes(a, b []byte) bool { return bytes.Equal(a, b) } // nil == empty

func msgCase(name string, ok bool, sample any) {
	hx.Case(hx.Hash("msg", name, fmt.Sprint(sample)), true, "C18/message-roundtrip", "C18/msg/"+name)
	hx.Sample("msg/"+name, map[string]any{"type": name, "message": fmt.Sprintf("%+v", sample)})
}

func TestSerialiseThenParse(t *testing.T) {
	t.Run("openvpn", func(t *testing.T) {
		rapid.Check(t, func(rt *rapid.T) {
			hdr := ovpn.MessageHeader{Opcode: uint8(rapid.IntRange(0, 31).Draw(rt, "opcode")), KeyID: uint8(rapid.IntRange(0, 7).Draw(rt, "keyid"))}
			var h2 ovpn.MessageHeader
			if err := h2.FromBytes(hdr.ToBytes()); err != nil || h2 != hdr {
				hx.Fail(rt, "C18", "roundtrip-msg/openvpn.MessageHeader", "header %+v -> %x -> %+v (%v)", hdr, hdr.ToBytes(), h2, err)
			}
			v2 := ovpn.MessageHeader{Opcode: ovpn.OpcodeControlHardResetClientV2, KeyID: hdr.KeyID}
			plain := ovpn.MessagePlain{MessageHeader: v2, LocalSessionID: rapid.Uint64().Draw(rt, "session"),
				PrevPacketIDsCount: rapid.Uint8().Draw(rt, "acks"), ThisPacketID: rapid.Uint32().Draw(rt, "pktid")}
			var p2 ovpn.MessagePlain
			if err := p2.FromBytes(plain.ToBytes()); err != nil || p2 != plain {
				hx.Fail(rt, "C18", "roundtrip-msg/openvpn.MessagePlain", "plain %+v -> %x -> %+v (%v)", plain, plain.ToBytes(), p2, err)
			}
			hl := ovpn.AuthDigestSizes[rapid.IntRange(0, len(ovpn.AuthDigestSizes)-1).Draw(rt, "hmacSize")]
			auth := ovpn.MessageAuth{MessagePlain: plain}
			auth.HMAC = rapid.SliceOfN(rapid.Byte(), hl, hl).Draw(rt, "hmac")
			auth.ReplayPacketID, auth.ReplayTimestamp = rapid.Uint32().Draw(rt, "rid"), rapid.Uint32().Draw(rt, "rts")
			var a2 ovpn.MessageAuth
			if err := a2.FromBytes(auth.ToBytes()); err != nil || a2.MessagePlain != auth.MessagePlain || !eqBytes(a2.HMAC, auth.HMAC) || a2.MessageTraitReplay != auth.MessageTraitReplay {
				hx.Fail(rt, "C18", "roundtrip-msg/openvpn.MessageAuth", "auth %+v -> %x -> %+v (%v)", auth, auth.ToBytes(), a2, err)
			}
			crypt := ovpn.MessageCrypt{}
			crypt.MessageHeader, crypt.LocalSessionID = v2, plain.LocalSessionID
			crypt.MessageTraitReplay = auth.MessageTraitReplay
			crypt.HMAC = rapid.SliceOfN(rapid.Byte(), 32, 32).Draw(rt, "chmac")
			crypt.Encrypted = rapid.SliceOfN(rapid.Byte(), 5, 5).Draw(rt, "enc")
			var c2 ovpn.MessageCrypt
			if err := c2.FromBytes(crypt.ToBytes()); err != nil || c2.MessageHeader != crypt.MessageHeader || c2.LocalSessionID != crypt.LocalSessionID ||
				c2.MessageTraitReplay != crypt.MessageTraitReplay || !eqBytes(c2.HMAC, crypt.HMAC) || !eqBytes(c2.Encrypted, crypt.Encrypted) {
				hx.Fail(rt, "C18", "roundtrip-msg/openvpn.MessageCrypt", "crypt %+v -> %x -> %+v (%v)", crypt, crypt.ToBytes(), c2, err)
			}
			wk := ovpn.WrappedKey{}
			wk.HMAC = rapid.SliceOfN(rapid.Byte(), 32, 32).Draw(rt, "whmac")
			wk.Encrypted = rapid.SliceOfN(rapid.Byte(), 256, ovpn.WrappedKeyBytesMax-2-32).Draw(rt, "wenc")
			var w2 ovpn.WrappedKey
			if err := w2.FromBytes(wk.ToBytes()); err != nil || !eqBytes(w2.HMAC, wk.HMAC) || !eqBytes(w2.Encrypted, wk.Encrypted) {
				hx.Fail(rt, "C18", "roundtrip-msg/openvpn.WrappedKey", "wrapped key hmac=%x enc(%d) -> %d bytes -> err=%v", wk.HMAC, len(wk.Encrypted), len(wk.ToBytes()), err)
			}
			// FromBase64 = 256 key bytes followed by the wrapped key
			key := rapid.SliceOfN(rapid.Byte(), 256, 256).Draw(rt, "key")
			var w3 ovpn.WrappedKey
			if err := w3.FromBase64(base64.StdEncoding.EncodeToString(append(append([]byte(nil), key...), wk.ToBytes()...))); err != nil ||
				!eqBytes(w3.KeyBytes, key) || !eqBytes(w3.HMAC, wk.HMAC) || !eqBytes(w3.Encrypted, wk.Encrypted) {
				hx.Fail(rt, "C18", "roundtrip-msg/openvpn.WrappedKey.FromBase64", "FromBase64 err=%v key ok=%v", err, eqBytes(w3.KeyBytes, key))
			}
			c3 := ovpn.MessageCrypt2{MessageCrypt: crypt, WrappedKey: wk}
			c3.MessageHeader.Opcode = ovpn.OpcodeControlHardResetClientV3
			var c4 ovpn.MessageCrypt2
			if err := c4.FromBytes(c3.ToBytes()); err != nil || !eqBytes(c4.ToBytes(), c3.ToBytes()) || !eqBytes(c4.WrappedKey.Encrypted, wk.Encrypted) || c4.LocalSessionID != crypt.LocalSessionID {
				hx.Fail(rt, "C18", "roundtrip-msg/openvpn.MessageCrypt2", "crypt2 (%d bytes) err=%v", len(c3.ToBytes()), err)
			}
			msgCase("openvpn", true, map[string]any{"hdr": hdr, "session": plain.LocalSessionID, "hmac_len": hl, "wrapped_enc_len": len(wk.Encrypted)})
		})
	})
	t.Run("wireguard", func(t *testing.T) {
		rapid.Check(t, func(rt *rapid.T) {
			var m wg.MessageInitiation
			m.Type, m.Sender = rapid.Uint32().Draw(rt, "type"), rapid.Uint32().Draw(rt, "sender")
			copy(m.Ephemeral[:], rapid.SliceOfN(rapid.Byte(), 32, 32).Draw(rt, "eph"))
			copy(m.Static[:], rapid.SliceOfN(rapid.Byte(), 48, 48).Draw(rt, "static"))
			copy(m.Timestamp[:], rapid.SliceOfN(rapid.Byte(), 28, 28).Draw(rt, "ts"))
			copy(m.MAC1[:], rapid.SliceOfN(rapid.Byte(), 16, 16).Draw(rt, "mac1"))
			copy(m.MAC2[:], rapid.SliceOfN(rapid.Byte(), 16, 16).Draw(rt, "mac2"))
			b, err := m.ToBytes()
			var m2 wg.MessageInitiation
			if err != nil || len(b) != wg.MessageInitiationBytesTotal || m2.FromBytes(b) != nil || m2 != m {
				hx.Fail(rt, "C18", "roundtrip-msg/wireguard.MessageInitiation", "initiation %+v -> %x -> %+v (%v)", m, b, m2, err)
			}
			tr := wg.MessageTransport{Type: rapid.Uint32().Draw(rt, "ttype"), Receiver: rapid.Uint32().Draw(rt, "recv"), Counter: rapid.Uint64().Draw(rt, "ctr"),
				Content: rapid.SliceOfN(rapid.Byte(), 0, 300).Draw(rt, "content")}
			tb, err := tr.ToBytes()
			var t2 wg.MessageTransport
			if err != nil || t2.FromBytes(tb) != nil || t2.Type != tr.Type || t2.Receiver != tr.Receiver || t2.Counter != tr.Counter || !eqBytes(t2.Content, tr.Content) {
				hx.Fail(rt, "C18", "roundtrip-msg/wireguard.MessageTransport", "transport %+v -> %x -> %+v (%v)", tr, tb, t2, err)
			}
			msgCase("wireguard", true, map[string]any{"type": m.Type, "content_len": len(tr.Content)})
		})
	})
	t.Run("winbox", func(t *testing.T) {
		rapid.Check(t, func(rt *rapid.T) {
			// user names within the module's bound of 255 characters (incl. the RoMON suffix)
			var user string
			if rapid.Bool().Draw(rt, "long") {
				user = string(bytes.Repeat([]byte{'x'}, rapid.IntRange(180, 253).Draw(rt, "ulen")))
			} else {
				user = rapid.StringMatching(`[0-9A-Za-z]([-#.0-9@A-Z_a-z]{1,20}[0-9A-Za-z])?`).Draw(rt, "user")
			}
			m := winbox.MessageAuth{Username: user, PublicKeyBytes: rapid.SliceOfN(rapid.Byte(), 32, 32).Draw(rt, "key"), PublicKeyParity: uint8(rapid.IntRange(0, 1).Draw(rt, "parity"))}
			if rapid.Bool().Draw(rt, "romon") {
				m.EnableRoMON()
			}
			b := m.ToBytes()
			var m2 winbox.MessageAuth
			if err := m2.FromBytes(b); err != nil || m2.Username != m.Username || !eqBytes(m2.PublicKeyBytes, m.PublicKeyBytes) || m2.PublicKeyParity != m.PublicKeyParity {
				hx.Fail(rt, "C18", "roundtrip-msg/winbox.MessageAuth", "winbox user(%d)=%q -> %d bytes -> user=%q err=%v", len(m.Username), m.Username, len(b), m2.Username, err)
			}
			var m3 winbox.MessageAuth
			chunks := m.ToChunks()
			if err := m3.FromChunks(chunks); err != nil || m3.Username != m.Username || !eqBytes(m3.PublicKeyBytes, m.PublicKeyBytes) || m3.PublicKeyParity != m.PublicKeyParity {
				hx.Fail(rt, "C18", "roundtrip-msg/winbox.MessageAuth.Chunks", "winbox user(%d) -> %d chunks -> user=%q err=%v", len(m.Username), len(chunks), m3.Username, err)
			}
			// the independent hand encoding and the module's ToBytes agree
			if hand := winboxBytes([]byte(m.Username), m.PublicKeyBytes, m.PublicKeyParity); !bytes.Equal(hand, b) {
				hx.Fail(rt, "C18", "encoding/winbox.MessageAuth", "ToBytes differs from the chunked wire form for user(%d):\nmodule=%x\nwire  =%x", len(m.Username), b, hand)
			}
			msgCase("winbox", true, map[string]any{"user_len": len(m.Username), "romon": m.GetRoMON(), "chunks": len(chunks)})
		})
	})
	t.Run("rdp", func(t *testing.T) {
		rapid.Check(t, func(rt *rapid.T) {
			h := rdp.TPKTHeader{Version: rapid.Byte().Draw(rt, "v"), Reserved: rapid.Byte().Draw(rt, "r"), Length: rapid.Uint16().Draw(rt, "l")}
			hb, err := h.ToBytes()
			var h2 rdp.TPKTHeader
			if err != nil || len(hb) != 4 || h2.FromBytes(hb) != nil || h2 != h || hb[2] != byte(h.Length>>8) {
				hx.Fail(rt, "C18", "roundtrip-msg/rdp.TPKTHeader", "%+v -> %x -> %+v", h, hb, h2)
			}
			x := rdp.X224Crq{Length: rapid.Byte().Draw(rt, "xl"), TypeCredit: rapid.Byte().Draw(rt, "tc"), DstRef: rapid.Uint16().Draw(rt, "d"), SrcRef: rapid.Uint16().Draw(rt, "s"), ClassOptions: rapid.Byte().Draw(rt, "co")}
			xb, err := x.ToBytes()
			var x2 rdp.X224Crq
			if err != nil || len(xb) != 7 || x2.FromBytes(xb) != nil || x2 != x {
				hx.Fail(rt, "C18", "roundtrip-msg/rdp.X224Crq", "%+v -> %x -> %+v", x, xb, x2)
			}
			n := rdp.RDPNegReq{Type: rapid.Byte().Draw(rt, "nt"), Flags: rapid.Byte().Draw(rt, "nf"), Length: rapid.Uint16().Draw(rt, "nl"), Protocols: rapid.Uint32().Draw(rt, "np")}
			nb, err := n.ToBytes()
			var n2 rdp.RDPNegReq
			if err != nil || len(nb) != 8 || n2.FromBytes(nb) != nil || n2 != n || binary.LittleEndian.Uint32(nb[4:]) != n.Protocols {
				hx.Fail(rt, "C18", "roundtrip-msg/rdp.RDPNegReq", "%+v -> %x -> %+v", n, nb, n2)
			}
			var ci rdp.RDPCorrInfo
			ci.Type, ci.Flags, ci.Length = rapid.Byte().Draw(rt, "ct"), rapid.Byte().Draw(rt, "cf"), rapid.Uint16().Draw(rt, "cl")
			copy(ci.Identity[:], rapid.SliceOfN(rapid.Byte(), 16, 16).Draw(rt, "id"))
			copy(ci.Reserved[:], rapid.SliceOfN(rapid.Byte(), 16, 16).Draw(rt, "rs"))
			cb, err := ci.ToBytes()
			var ci2 rdp.RDPCorrInfo
			if err != nil || len(cb) != 36 || ci2.FromBytes(cb) != nil || ci2 != ci {
				hx.Fail(rt, "C18", "roundtrip-msg/rdp.RDPCorrInfo", "%+v -> %x -> %+v", ci, cb, ci2)
			}
			tk := rdp.RDPToken{Version: 3, Length: rapid.Uint16().Draw(rt, "tl"), LengthIndicator: rapid.Byte().Draw(rt, "li"), TypeCredit: 0xE0,
				DstRef: rapid.Uint16().Draw(rt, "td"), SrcRef: rapid.Uint16().Draw(rt, "tsr"), Optional: rapid.SliceOfN(rapid.Byte(), 0, 60).Draw(rt, "opt")}
			tb, err := tk.ToBytes()
			var tk2 rdp.RDPToken
			e2 := tk2.FromBytes(tb)
			tkc, tk2c := tk, tk2
			tkc.Optional, tk2c.Optional = nil, nil
			if err != nil || e2 != nil || !reflect.DeepEqual(tkc, tk2c) || !eqBytes(tk.Optional, tk2.Optional) {
				hx.Fail(rt, "C18", "roundtrip-msg/rdp.RDPToken", "%+v -> %x -> %+v", tk, tb, tk2)
			}
			msgCase("rdp", true, map[string]any{"tpkt": h, "negreq": n, "token_opt_len": len(tk.Optional)})
		})
	})
}

// ---- replay tier ----

func TestReplay(t *testing.T) {
	cs := map[string]codec{}
	for _, c := range codecs() {
		cs[c.name] = c
	}
	n := 0
	for _, rc := range hx.LoadReplays("C18") {
		c, ok := cs[rc["codec"]]
		if !ok {
			t.Fatalf("replay names unknown codec %q", rc["codec"])
		}
		b, err := hex.DecodeString(rc["input_hex"])
		if err != nil {
			t.Fatal(err)
		}
		checkBytes(t, c, b, "replay")
		n++
	}
	hx.Class("C18/replay-files", int64(n))
}

// FuzzCodecs: coverage-guided bytes -> (codec selector, input) with the same oracle.
func FuzzCodecs(f *testing.F) {
	cs := codecs()
	for i := range cs {
		f.Add(uint8(i), make([]byte, max(cs[i].min, 0)))
		f.Add(uint8(i), winboxBytes([]byte("admin"), make([]byte, 32), 0))
	}
	f.Fuzz(func(t *testing.T, sel uint8, data []byte) {
		if len(data) > 2048 {
			data = data[:2048]
		}
		checkBytes(t, cs[int(sel)%len(cs)], data, "fuzz")
	})
}
