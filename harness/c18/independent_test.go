package c18

import (
	"bytes"
	"encoding/hex"
	"fmt"
	"sync"
	"testing"

	"pgregory.net/rapid"

	"verifharness/hx"
)

// The round trip has to hold for every message, not only for the one serialised
// last: the bytes ToBytes returned for one message stay what they were while
// other messages are serialised, one after another or at the same time.
func TestSerialisedMessagesAreIndependent(t *testing.T) {
	cs := codecs()
	rapid.Check(t, func(rt *rapid.T) {
		k := rapid.IntRange(2, 6).Draw(rt, "messages")
		sameCodec := rapid.Bool().Draw(rt, "sameCodec")
		first := rapid.IntRange(0, len(cs)-1).Draw(rt, "codec")
		type item struct {
			c   codec
			in  []byte
			ser func() ([]byte, error)
			out []byte
		}
		var items []*item
		for len(items) < k {
			c := cs[first]
			if !sameCodec {
				c = cs[rapid.IntRange(0, len(cs)-1).Draw(rt, "otherCodec")]
			}
			hi := c.max
			if hi < 0 {
				hi = c.min + 200
			}
			n := rapid.IntRange(c.min, hi).Draw(rt, "len")
			b := rapid.SliceOfN(rapid.Byte(), n, n).Draw(rt, "bytes")
			if c.shape != nil {
				b = c.shape(rt, append([]byte(nil), b...))
			}
			var ser func() ([]byte, error)
			var err error
			if p := safely(func() { ser, err = c.parse(b) }); p != nil || err != nil {
				// not accepted (or a panic, which TestParseThenSerialise reports): try another one, a bounded number of times
				if rapid.IntRange(0, 9).Draw(rt, "giveUp") == 0 {
					break
				}
				continue
			}
			items = append(items, &item{c: c, in: append([]byte(nil), b...), ser: ser})
		}
		if len(items) < 2 {
			return
		}
		concurrent := rapid.Bool().Draw(rt, "concurrent")
		if concurrent {
			var wg sync.WaitGroup
			for _, it := range items {
				it := it
				wg.Add(1)
				go func() {
					defer wg.Done()
					_ = safely(func() { it.out, _ = it.ser() })
				}()
			}
			wg.Wait()
		} else {
			for _, it := range items {
				it := it
				_ = safely(func() { it.out, _ = it.ser() })
			}
		}
		for i, it := range items {
			if !bytes.Equal(it.out, it.in) {
				hx.Fail(rt, "C18", "roundtrip-bytes-after-other-messages/"+it.c.name, "%s: message %d of %d was parsed from %s and serialised (concurrently=%v) to the same bytes, but once the other messages had been serialised too its bytes read %s",
					it.c.name, i, len(items), hex.EncodeToString(it.in), concurrent, hex.EncodeToString(it.out))
				return
			}
		}
		hx.Case(hx.Hash("indep", fmt.Sprint(concurrent), items[0].in, items[1].in), true, "C18/several-messages-alive", fmt.Sprintf("C18/several-messages-alive/concurrent=%v", concurrent))
	})
}
