// C09 — UDP datagrams are demultiplexed per client, in order; the loop never crashes.
package c09

import (
	"fmt"
	"net"
	"strconv"
	"strings"
	"sync"
	"sync/atomic"
	"testing"
	"time"

	"github.com/caddyserver/caddy/v2"
	"pgregory.net/rapid"

	"github.com/mholt/caddy-l4/layer4"

	"verifharness/hx"
	"verifharness/rx"
)

func TestMain(m *testing.M) {
	caddy.RegisterModule(&udpHandler{})
	hx.StartStallMonitor()
	hx.Main(m)
}

// ---------- the association handler driven by datagram contents ----------

type delivery struct {
	assoc  int
	client string // from the association's RemoteAddr
	tagC   int    // client id written in the datagram
	seq    int
	cmd    string
	n      int
	at     time.Time
}

type assocState struct {
	id        int
	client    string
	start     time.Time
	lastRead  atomic.Int64 // unix nano
	finishing atomic.Bool
	ended     atomic.Bool
}

type world struct {
	mu         sync.Mutex
	deliveries []delivery
	assocs     []*assocState
	violations []string
	idle       time.Duration
}

var (
	current  atomic.Pointer[world]
	assocCtr atomic.Int64
)

type udpHandler struct{}

func (*udpHandler) CaddyModule() caddy.ModuleInfo {
	return caddy.ModuleInfo{ID: "layer4.handlers.verif_udp", New: func() caddy.Module { return new(udpHandler) }}
}

// datagram format: C<client>:<seq>:<cmd>:<total length>:<padding of '.'>
// A large datagram may reach the handler in several reads (the part prefetched for matching first), so the
// association's input is parsed as a stream of such frames.
func parse(b []byte) (c, seq int, cmd string, total int, ok bool) {
	parts := strings.SplitN(string(b[:min(len(b), 48)]), ":", 5)
	if len(parts) < 5 || !strings.HasPrefix(parts[0], "C") {
		return 0, 0, "", 0, false
	}
	c, err1 := strconv.Atoi(parts[0][1:])
	seq, err2 := strconv.Atoi(parts[1])
	total, err3 := strconv.Atoi(parts[3])
	return c, seq, parts[2], total, err1 == nil && err2 == nil && err3 == nil
}

func (*udpHandler) Handle(cx *layer4.Connection, _ layer4.Handler) error {
	w := current.Load()
	if w == nil {
		return nil
	}
	st := &assocState{id: int(assocCtr.Add(1)), client: cx.RemoteAddr().String(), start: time.Now()}
	st.lastRead.Store(time.Now().UnixNano())
	w.mu.Lock()
	// a second association for a client whose association is demonstrably live
	for _, a := range w.assocs {
		if a.client == st.client && !a.ended.Load() && !a.finishing.Load() {
			age := time.Since(time.Unix(0, a.lastRead.Load()))
			if w.idle == 0 || age < w.idle/2 {
				w.violations = append(w.violations, fmt.Sprintf("live-association-replaced|a new association #%d was started for client %s although association #%d is live (last datagram %v ago, not finishing, not idle)", st.id, st.client, a.id, age))
			}
		}
	}
	w.assocs = append(w.assocs, st)
	w.mu.Unlock()
	defer st.ended.Store(true)
	buf := make([]byte, 9000)
	pending := 0 // bytes of the current frame's padding still to come
	for {
		n, err := cx.Read(buf)
		data := buf[:n]
		if n > 0 {
			st.lastRead.Store(time.Now().UnixNano())
		}
		for len(data) > 0 {
			if pending > 0 {
				k := min(pending, len(data))
				for _, x := range data[:k] {
					if x != '.' {
						w.mu.Lock()
						w.violations = append(w.violations, fmt.Sprintf("datagram-corrupted|association #%d of %s: padding byte %#x inside a datagram", st.id, st.client, x))
						w.mu.Unlock()
						break
					}
				}
				pending -= k
				data = data[k:]
				continue
			}
			if strings.HasPrefix(string(data), noMatch) {
				// a datagram of the "matches no route" kind sent while this client's association is live: it belongs here
				data = data[len(noMatch):]
				continue
			}
			c, seq, cmd, total, ok := parse(data)
			hdr := 0
			if ok {
				hdr = len(fmt.Sprintf("C%d:%d:%s:%d:", c, seq, cmd, total))
			}
			if !ok || total < hdr || hdr > len(data) {
				w.mu.Lock()
				w.deliveries = append(w.deliveries, delivery{st.id, st.client, -1, -1, "", len(data), time.Now()})
				w.mu.Unlock()
				data = nil
				break
			}
			w.mu.Lock()
			w.deliveries = append(w.deliveries, delivery{st.id, st.client, c, seq, cmd, total, time.Now()})
			w.mu.Unlock()
			pending = total - hdr
			data = data[hdr:]
			switch {
			case cmd == "r":
				_, _ = cx.Write([]byte(fmt.Sprintf("R%d:%d", c, seq)))
			case cmd == "f":
				st.finishing.Store(true)
				return nil
			case strings.HasPrefix(cmd, "d"):
				st.finishing.Store(true)
				ms, _ := strconv.Atoi(cmd[1:])
				time.Sleep(time.Duration(ms) * time.Millisecond)
				return nil
			case cmd == "s": // a slow consumer
				time.Sleep(2 * time.Millisecond)
			}
		}
		if err != nil {
			st.finishing.Store(true)
			return nil
		}
	}
}

const noMatch = "N-no-route-matches-this"

// ---------- the history ----------

type env struct {
	t       *rapid.T
	w       *world
	pc      *hx.FakePacketConn
	srvErr  chan error
	srvPan  chan any
	seq     map[int]int
	history []string
	sentTo  map[int]int // datagrams sent per client
	// mustDeliver lists (client, seq) of datagrams that may not be lost (see the finish action)
	mustDeliver [][2]int
	// lateForEnded lists (client, seq) of datagrams sent to clients whose association had ended long before, while the
	// loop was held up and had not heard of it yet (see the stampede action)
	lateForEnded [][2]int
	// sizes of the datagrams sent per client, by sequence number; ended: clients whose association was (or may have
	// been) ended by the history - for the others every single datagram has to arrive
	sizes map[int][]int
	ended map[int]bool
	// gaps: some datagram of the history could not be injected in time (see check): deliveries are not complete
	gaps bool
}

// addrKind is the kind of client address of the history that is running (histories run one after the other): UDP over
// IPv4, UDP over IPv6 with a zone, or the socket paths of a unixgram listener - the server is documented to listen on
// any packet network, and clients are told apart by their address whatever it looks like.
var addrKind int

func addr(c int) net.Addr {
	switch addrKind {
	case 1:
		return &net.UDPAddr{IP: net.ParseIP("fe80::1"), Port: 4000, Zone: fmt.Sprintf("eth%d", c)}
	case 2:
		return &net.UnixAddr{Name: fmt.Sprintf("/run/c09/client-%d.sock", c), Net: "unixgram"}
	}
	return &net.UDPAddr{IP: net.IPv4(10, 0, 0, byte(10+c)), Port: 4000 + c}
}

func (e *env) datagram(c int, cmd string, size int) []byte {
	s := fmt.Sprintf("C%d:%d:%s:%d:", c, e.seq[c], cmd, size)
	if size < len(s)+1 {
		size = len(s) + 5
		s = fmt.Sprintf("C%d:%d:%s:%d:", c, e.seq[c], cmd, size)
	}
	e.seq[c]++
	b := make([]byte, size)
	copy(b, s)
	for i := len(s); i < size; i++ {
		b[i] = '.'
	}
	return b
}

func (e *env) send(c int, cmd string, size int) bool {
	d := e.datagram(c, cmd, size)
	e.sizes[c] = append(e.sizes[c], len(d))
	ok := e.pc.Inject(d, addr(c), 3*time.Second)
	e.sentTo[c]++
	return ok
}

func (e *env) panicked() any {
	select {
	case p := <-e.srvPan:
		return p
	default:
		return nil
	}
}

func start(t *rapid.T, idle time.Duration) *env {
	routes := []rx.R{{Match: []map[string]any{rx.M("verif_need", &rx.Need{N: 1, Pos: 0, Val: 'C'})}, Handle: []map[string]any{rx.H("verif_udp")}}}
	srv, err := rx.Server(rx.BareCtx(), routes, 300*time.Millisecond)
	if err != nil {
		t.Fatalf("provision: %v", err)
	}
	e := &env{t: t, w: &world{idle: idle}, pc: hx.NewFakePacketConn(), srvErr: make(chan error, 1), srvPan: make(chan any, 1), seq: map[int]int{}, sentTo: map[int]int{}, sizes: map[int][]int{}, ended: map[int]bool{}}
	current.Store(e.w)
	go func() {
		defer func() {
			if r := recover(); r != nil {
				e.srvPan <- r
			}
		}()
		e.srvErr <- srv.VerifServePacket(e.pc)
	}()
	return e
}

func sizes(t *rapid.T) int {
	switch rapid.IntRange(0, 4).Draw(t, "sizeKind") {
	case 0:
		return rapid.IntRange(2049, 9000).Draw(t, "big") // more than one prefetch chunk
	case 1:
		return 9000
	default:
		return rapid.IntRange(1, 200).Draw(t, "small")
	}
}

func runHistory(t *rapid.T, idle time.Duration) {
	addrKind = []int{0, 0, 0, 1, 2, 2}[rapid.IntRange(0, 5).Draw(t, "addressKind")]
	hx.Class(fmt.Sprintf("C09/client-addresses/%s", []string{"udp4", "udp6-zones", "unixgram"}[addrKind]), 1)
	e := start(t, idle)
	nclients := rapid.IntRange(1, 4).Draw(t, "clients")
	fail := func(key, format string, a ...any) {
		hx.Fail(t, "C09", key, format+"\n  history: %v", append(a, e.history)...)
	}
	wedged := false
	check := func(ok bool, what string) {
		if !ok && !wedged {
			if p := e.panicked(); p != nil {
				wedged = true
				fail("loop-panic", "the UDP server loop panicked: %v (during %s)", p, what)
				return
			}
			// stuck, or only slow (a machine busy with other things can keep a goroutine waiting for seconds)? A loop
			// that is stuck stays stuck: a probe datagram gets another 15 s. If it is taken, the history goes on, with
			// a gap where the datagram that was not taken should have been.
			if e.pc.Inject([]byte(noMatch), addr(900), 15*time.Second) {
				hx.Class("C09/slow-loop-tolerated", 1)
				e.gaps = true
				return
			}
			wedged = true
			fail("loop-wedged", "the UDP server loop did not take a datagram within 3 s, nor a probe within 15 s more (during %s)", what)
		}
	}
	endedOnce, stampeded := false, false
	t.Repeat(map[string]func(*rapid.T){
		"send": func(t *rapid.T) {
			c := rapid.IntRange(0, nclients-1).Draw(t, "c")
			cmd := []string{"", "r", "r", "s"}[rapid.IntRange(0, 3).Draw(t, "cmd")]
			e.history = append(e.history, fmt.Sprintf("send(c%d,%q)", c, cmd))
			check(e.send(c, cmd, sizes(t)), "send")
		},
		"burst": func(t *rapid.T) {
			c := rapid.IntRange(0, nclients-1).Draw(t, "c")
			n := rapid.IntRange(6, 40).Draw(t, "n")
			cmd := []string{"", "s"}[rapid.IntRange(0, 1).Draw(t, "cmd")]
			e.history = append(e.history, fmt.Sprintf("burst(c%d,%d,%q)", c, n, cmd))
			for i := 0; i < n && !wedged; i++ {
				check(e.send(c, cmd, 20), "burst")
			}
		},
		"finish": func(t *rapid.T) {
			c := rapid.IntRange(0, nclients-1).Draw(t, "c")
			cmd := "f"
			if rapid.Bool().Draw(t, "delayed") {
				cmd = fmt.Sprintf("d%d", rapid.IntRange(1, 30).Draw(t, "delayMs"))
			}
			follow := rapid.IntRange(0, 12).Draw(t, "followers") // datagrams racing with the association's end
			e.history = append(e.history, fmt.Sprintf("finish(c%d,%q,+%d)", c, cmd, follow))
			e.ended[c] = true
			check(e.send(c, cmd, 10), "finish")
			for i := 0; i < follow && !wedged; i++ {
				// Datagrams that were already queued on the association when it ended may be dropped (its queue
				// holds 5). A datagram the loop was still holding, and everything after it, belongs to a later
				// moment: it must be served by a fresh association.
				if i >= 5 {
					e.mustDeliver = append(e.mustDeliver, [2]int{c, e.seq[c]})
				}
				check(e.send(c, "", 10), "finish-followers")
			}
			endedOnce = true
		},
		"nomatch": func(t *rapid.T) {
			// datagrams that match no route: the association ends at once, over and over
			c := rapid.IntRange(0, nclients-1).Draw(t, "c")
			n := rapid.IntRange(1, 30).Draw(t, "n")
			e.history = append(e.history, fmt.Sprintf("nomatch(c%d,%d)", c, n))
			e.ended[c] = true
			for i := 0; i < n && !wedged; i++ {
				ok := e.pc.Inject([]byte(noMatch), addr(c), 3*time.Second)
				check(ok, "nomatch")
			}
			endedOnce = true
		},
		"stampede": func(t *rapid.T) {
			// many associations end while the loop is busy handing datagrams to a client whose handler does not read:
			// their close notifications pile up, and the busy client's own association ends last
			if stampeded {
				t.Skip("once per history")
			}
			stampeded = true
			c := rapid.IntRange(0, nclients-1).Draw(t, "c")
			others := rapid.IntRange(8, 14).Draw(t, "others")
			wait := rapid.IntRange(10, 30).Draw(t, "endAfterMs")
			e.history = append(e.history, fmt.Sprintf("stampede(c%d,%d others end after %dms)", c, others, wait))
			e.ended[c] = true
			for o := 0; o < others && !wedged; o++ {
				e.ended[100+o] = true
				check(e.send(100+o, fmt.Sprintf("d%d", wait), 10), "stampede-others")
			}
			late := rapid.Bool().Draw(t, "lateDatagramsForTheOthers")
			if !late {
				check(e.send(c, fmt.Sprintf("d%d", 2*wait), 10), "stampede-busy-client")
				for i := 0; i < 8 && !wedged; i++ {
					check(e.send(c, "", 10), "stampede-queue")
				}
			} else {
				// ... and while the loop is still held up by the busy client (its queue full, one datagram in the
				// loop's hand), the others - whose associations have ended by then, the notifications waiting - send
				// again. Each of these datagrams comes long after its client's association ended: a fresh one serves it.
				e.history = append(e.history, "late datagrams for the others")
				check(e.send(c, fmt.Sprintf("d%d", 3*wait+250), 10), "stampede-busy-client")
				for i := 0; i < 6 && !wedged; i++ {
					check(e.send(c, "", 10), "stampede-queue")
				}
				// "had ended" is observed, not timed: every handler of the others has returned, and 60 ms have passed in
				// which no goroutine of this process was kept waiting for more than 20 ms (so the few instructions between
				// a handler's return and the closing of its connection have run)
				othersEnded := func() bool {
					e.w.mu.Lock()
					defer e.w.mu.Unlock()
					n := 0
					for _, a := range e.w.assocs {
						for o := 0; o < others; o++ {
							if a.client == addr(100+o).String() && a.ended.Load() {
								n++
							}
						}
					}
					return n >= others
				}
				ended := hx.Eventually(2*time.Second, 5*time.Millisecond, othersEnded)
				from := time.Now()
				time.Sleep(60 * time.Millisecond)
				if ended && hx.Punctual(from, 20*time.Millisecond, "C09/late-datagram-verdict-dropped-after-stall") {
					for o := 0; o < others && !wedged; o++ {
						e.lateForEnded = append(e.lateForEnded, [2]int{100 + o, e.seq[100+o]})
						check(e.send(100+o, "", 12), "stampede-late-datagrams")
					}
				}
				for i := 0; i < 2 && !wedged; i++ {
					check(e.send(c, "", 10), "stampede-queue")
				}
			}
			endedOnce = true
		},
		"pause": func(t *rapid.T) {
			d := rapid.IntRange(1, 25).Draw(t, "ms")
			e.history = append(e.history, fmt.Sprintf("pause(%dms)", d))
			time.Sleep(time.Duration(d) * time.Millisecond)
		},
		"idle": func(t *rapid.T) {
			if idle == 0 {
				t.Skip("idle expiry cannot be shortened on this tree")
			}
			e.history = append(e.history, "idle-expiry")
			for c := 0; c < nclients; c++ {
				e.ended[c] = true
			}
			time.Sleep(idle + idle/2)
			endedOnce = true
		},
	})
	if wedged {
		_ = e.pc.Close()
		return
	}
	time.Sleep(20 * time.Millisecond)
	// after an association ended, a client that keeps sending is served by a fresh one within 2 s
	for c := 0; c < nclients && !wedged; c++ {
		before := len(e.pc.SentSnapshot())
		served := false
		for i := 0; i < 200 && !served && !wedged; i++ {
			check(e.send(c, "r", 12), "resume")
			time.Sleep(10 * time.Millisecond)
			for _, d := range e.pc.SentSnapshot()[before:] {
				if strings.HasPrefix(string(d.Data), fmt.Sprintf("R%d:", c)) {
					served = true
				}
			}
		}
		if !served && !wedged {
			fail("not-served-again", "client c%d kept sending for 2 s and was never served (no fresh association after its earlier one ended?)", c)
			_ = e.pc.Close()
			return
		}
	}
	if wedged {
		_ = e.pc.Close()
		return
	}
	// a probe client that never spoke before is served
	time.Sleep(10 * time.Millisecond)
	if p := e.panicked(); p != nil {
		fail("loop-panic", "the UDP server loop panicked: %v", p)
		return
	}
	// a client whose association was never ended has a handler that keeps reading: every datagram the loop took for it
	// arrives (the loop waits for room in the association's queue, it does not drop)
	for c := 0; c < nclients; c++ {
		if e.ended[c] || e.gaps {
			continue
		}
		missing := func() (m []int) {
			e.w.mu.Lock()
			defer e.w.mu.Unlock()
			got := map[int]bool{}
			for _, d := range e.w.deliveries {
				if d.tagC == c {
					got[d.seq] = true
				}
			}
			for q := 0; q < e.seq[c]; q++ {
				if !got[q] {
					m = append(m, q)
				}
			}
			return
		}
		if !hx.Eventually(2*time.Second, 5*time.Millisecond, func() bool { return len(missing()) == 0 }) {
			m := missing()
			// a real defect reproduces at will on a fresh server with the same datagram sizes
			again := confirmUndelivered(t, idle, e.sizes[c])
			current.Store(e.w) // the reproduction ran on servers (and recording worlds) of its own
			if again < 2 {
				hx.Class("C09/loss-not-reproduced", 1)
				continue
			}
			fail("datagram-not-delivered", "client c%d has had one association all along, whose handler keeps reading, yet of its %d datagrams %d never arrived (first: seq %d, %d bytes)", c, e.seq[c], len(m), m[0], e.sizes[c][m[0]])
			_ = e.pc.Close()
			return
		}
		hx.Class("C09/clients-with-complete-delivery-checked", 1)
	}
	// shutdown: the loop ends with an error, not a panic
	_ = e.pc.Close()
	select {
	case err := <-e.srvErr:
		if err == nil {
			fail("shutdown", "servePacket returned nil after the socket was closed")
			return
		}
	case p := <-e.srvPan:
		fail("loop-panic", "the UDP server loop panicked at shutdown: %v", p)
		return
	case <-time.After(3 * time.Second):
		fail("shutdown-hang", "servePacket did not return within 3 s after the socket was closed")
		return
	}
	time.Sleep(5 * time.Millisecond)
	// ---- invariants over the recorded history ----
	e.w.mu.Lock()
	dels := append([]delivery(nil), e.w.deliveries...)
	viol := append([]string(nil), e.w.violations...)
	nassoc := len(e.w.assocs)
	e.w.mu.Unlock()
	for _, v := range viol {
		kv := strings.SplitN(v, "|", 2)
		fail(kv[0], "%s", kv[1])
		return
	}
	lastSeq := map[int]int{}
	seen := map[string]bool{}
	for _, d := range dels {
		if d.tagC < 0 || d.client != addr(d.tagC).String() {
			fail("cross-delivery", "association #%d of client %s received a datagram of client c%d (seq %d, %d bytes)", d.assoc, d.client, d.tagC, d.seq, d.n)
			return
		}
		if prev, ok := lastSeq[d.assoc]; ok && d.seq <= prev {
			fail("out-of-order", "association #%d (client c%d) received seq %d after seq %d", d.assoc, d.tagC, d.seq, prev)
			return
		}
		lastSeq[d.assoc] = d.seq
		k := fmt.Sprintf("%d/%d", d.tagC, d.seq)
		if seen[k] {
			fail("duplicate", "datagram c%d seq %d was delivered twice", d.tagC, d.seq)
			return
		}
		seen[k] = true
	}
	var lost [][2]int
	for _, md := range e.lateForEnded {
		if !seen[fmt.Sprintf("%d/%d", md[0], md[1])] {
			lost = append(lost, md)
		}
	}
	if len(e.lateForEnded) > 0 {
		hx.Class("C09/late-datagrams-for-ended-associations-while-the-loop-was-held", int64(len(e.lateForEnded)))
	}
	if len(lost) >= 2 && !e.gaps {
		fail("datagrams-lost-after-association-end", "%d of %d datagrams (client, seq: %v) that were sent well after their clients' associations had ended, while the loop was busy with another client, reached neither the old nor a fresh association", len(lost), len(e.lateForEnded), lost)
		return
	}
	for _, md := range e.mustDeliver {
		if !seen[fmt.Sprintf("%d/%d", md[0], md[1])] && !e.gaps {
			// A single loss could in principle stem from the loop picking the dying association in the few
			// nanoseconds between its liveness check and the hand-over; a real defect reproduces at will.
			if again := confirmLoss(t, idle); again < 2 {
				hx.Class("C09/loss-not-reproduced", 1)
				break
			}
			fail("datagram-lost-across-association-end", "datagram c%d seq %d arrived after more than a queue's worth of datagrams behind the one that ended the association; it was neither delivered to the old nor to a fresh association", md[0], md[1])
			return
		}
	}
	for _, s := range e.pc.SentSnapshot() {
		var c, q int
		if _, err := fmt.Sscanf(string(s.Data), "R%d:%d", &c, &q); err == nil && s.Addr.String() != addr(c).String() {
			fail("reply-misdirected", "the reply %q for client c%d was sent to %v", s.Data, c, s.Addr)
			return
		}
	}
	nontrivial := (nclients >= 2 && endedOnce) || len(dels) > 30
	cl := []string{"C09/history"}
	if endedOnce {
		cl = append(cl, "C09/association-ended-then-more")
	}
	if idle > 0 {
		cl = append(cl, "C09/idle-overlay-active")
	}
	hx.Class("C09/datagrams-delivered", int64(len(dels)))
	hx.Class("C09/associations", int64(nassoc))
	hx.Case(hx.Hash(fmt.Sprint(e.history)), nontrivial, cl...)
	if nontrivial {
		hx.Sample(fmt.Sprint(nclients, endedOnce), map[string]any{"clients": nclients, "history": e.history, "delivered": len(dels), "associations": nassoc})
	}
}

// confirmLoss replays the minimal scenario three times on fresh servers (a handler that finishes after a pause while
// eight datagrams follow) and reports how often a datagram beyond the queue's capacity got lost.
func confirmLoss(t *rapid.T, idle time.Duration) int {
	lost := 0
	for r := 0; r < 3; r++ {
		e := start(t, idle)
		e.send(0, "d30", 10)
		var want []int
		for i := 0; i < 8; i++ {
			if i >= 5 {
				want = append(want, e.seq[0])
			}
			e.send(0, "", 10)
		}
		time.Sleep(120 * time.Millisecond)
		e.w.mu.Lock()
		got := map[int]bool{}
		for _, d := range e.w.deliveries {
			got[d.seq] = true
		}
		e.w.mu.Unlock()
		for _, q := range want {
			if !got[q] {
				lost++
				break
			}
		}
		_ = e.pc.Close()
		time.Sleep(5 * time.Millisecond)
	}
	return lost
}

// confirmUndelivered sends datagrams of the given sizes from one client to a fresh server, three times, and reports how
// often some of them did not arrive within a second.
func confirmUndelivered(t *rapid.T, idle time.Duration, sizes []int) int {
	lost := 0
	for r := 0; r < 3; r++ {
		e := start(t, idle)
		for _, n := range sizes {
			e.send(0, "", n)
		}
		complete := hx.Eventually(time.Second, 5*time.Millisecond, func() bool {
			e.w.mu.Lock()
			defer e.w.mu.Unlock()
			n := 0
			for _, d := range e.w.deliveries {
				if d.tagC == 0 {
					n++
				}
			}
			return n >= len(sizes)
		})
		if !complete {
			lost++
		}
		_ = e.pc.Close()
		time.Sleep(5 * time.Millisecond)
	}
	return lost
}

func TestDemux(t *testing.T) {
	idle := time.Duration(0)
	if setIdle != nil {
		idle = 150 * time.Millisecond
		setIdle(idle)
	} else {
		hx.Note("the UDP idle timeout could not be shortened (pattern not found in layer4/server.go): idle-expiry actions are skipped")
	}
	rapid.Check(t, func(rt *rapid.T) { runHistory(rt, idle) })
}
