//go:build verif_idle

package c09

import "github.com/mholt/caddy-l4/layer4"

func init() { setIdle = layer4.VerifSetUDPIdleTimeout }
