package c09

import "time"

// setIdle is non-nil when the generated overlay (udpAssociationIdleTimeout turned into a variable) is in place.
var setIdle func(time.Duration)
