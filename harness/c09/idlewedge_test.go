package c09

import (
	"fmt"
	"sync"
	"sync/atomic"
	"testing"
	"time"

	"pgregory.net/rapid"

	"verifharness/hx"
)

// An association reaches its idle timeout while the server loop is held up by another client and more end
// notifications are waiting than the loop's notification channel holds; then its client sends again, more datagrams
// than an association's queue holds. Whatever becomes of those datagrams (the old association is as good as gone, a
// fresh one may serve them), the loop must go on serving: a probe from an uninvolved client is taken.
func TestIdleExpiryWhileNotificationsPile(t *testing.T) {
	if setIdle == nil {
		t.Skip("the UDP idle timeout could not be shortened on this tree")
	}
	idle := 150 * time.Millisecond
	setIdle(idle)
	rapid.Check(t, func(rt *rapid.T) {
		addrKind = 0
		others := rapid.IntRange(11, 60).Draw(rt, "others")
		extra := rapid.IntRange(6, 30).Draw(rt, "datagramsAfterExpiry")
		e := start(rt, idle)
		defer e.pc.Close()
		ok := true
		send := func(c int, cmd string) {
			if ok && !e.send(c, cmd, 12) {
				ok = false
			}
		}
		// the sleeper: one datagram, then silence - its association will expire
		send(1, "")
		// the others end 20 ms from now, each leaving a notification
		for o := 0; o < others; o++ {
			send(100+o, "d20")
		}
		// the busy client keeps the loop waiting for room in its queue for 400 ms
		send(0, "d400")
		for i := 0; i < 6; i++ {
			send(0, "")
		}
		if !ok {
			hx.Class("C09/idle-wedge-scenario-not-set-up", 1)
			return
		}
		time.Sleep(idle + 60*time.Millisecond) // the sleeper's idle timeout passes while the loop is held
		// (all at once, from as many senders: the socket then always has the next datagram ready, as a real one has)
		var takenN atomic.Int32
		var wg sync.WaitGroup
		for i := 0; i < extra; i++ {
			d := e.datagram(1, "", 12)
			wg.Add(1)
			go func() {
				defer wg.Done()
				if e.pc.Inject(d, addr(1), 4*time.Second) {
					takenN.Add(1)
				}
			}()
		}
		wg.Wait()
		taken := int(takenN.Load())
		if taken < extra {
			// stuck or slow? a probe from a client nobody has heard of gets 15 s
			if !e.pc.Inject([]byte(noMatch), addr(900), 15*time.Second) {
				hx.Fail(rt, "C09", "loop-wedged", "the UDP server loop stopped taking datagrams (%d of %d taken, then none for 18 s): an association had reached its idle timeout while %d end notifications were waiting and the loop was held up by another client; then its client sent %d datagrams", taken, extra, others, extra)
				return
			}
		}
		hx.Case(hx.Hash("idle-wedge", others, extra), true, "C09/idle-expiry-while-notifications-pile", fmt.Sprintf("C09/idle-expiry-while-notifications-pile/all-taken=%v", taken == extra))
	})
}
