// C11 — upstream health, failure windows, retries and limits are accounted exactly.
package c11

import (
	"context"
	"encoding/json"
	"errors"
	"fmt"
	"io"
	"net"
	"sync"
	"sync/atomic"
	"testing"
	"time"

	"github.com/caddyserver/caddy/v2"
	"go.uber.org/zap"
	"pgregory.net/rapid"

	"github.com/mholt/caddy-l4/layer4"
	"github.com/mholt/caddy-l4/modules/l4proxy"

	"verifharness/hx"
)

func TestMain(m *testing.M) {
	hx.StartStallMonitor()
	hx.Main(m)
}

const edge = 80 * time.Millisecond // samples closer than this to a window edge are not judged

// ---- a loopback upstream that can be taken down and brought back on the same port ----

type upstream struct {
	mu      sync.Mutex
	addr    string
	ln      net.Listener
	accepts atomic.Int64
	conns   []net.Conn
	// held: while the upstream is down its port stays bound (not listening), so that nobody else gets it
	held func()
}

func newUpstream(t hx.TB, up bool) *upstream {
	ln, err := hx.Listen("tcp", "127.0.0.1:0")
	if err != nil {
		t.Fatalf("listen: %v", err)
	}
	u := &upstream{addr: ln.Addr().String()}
	if up {
		u.ln = ln
		go u.loop(ln)
	} else {
		_ = ln.Close() // a port nobody listens on refuses at once
		u.hold()
	}
	return u
}

// hold keeps the port of an upstream that is down (caller holds u.mu or owns u).
func (u *upstream) hold() {
	if rel, err := hx.HoldPort(u.addr); err == nil {
		u.held = rel
	}
}

func (u *upstream) loop(ln net.Listener) {
	for {
		c, err := ln.Accept()
		if err != nil {
			return
		}
		u.mu.Lock()
		u.conns = append(u.conns, c)
		u.mu.Unlock()
		go func() {
			// only proxied connections carry data (the client's marker byte); active health checks just connect
			b := make([]byte, 1)
			if n, _ := c.Read(b); n > 0 {
				u.accepts.Add(1)
			}
			_, _ = io.Copy(io.Discard, c)
			_ = c.Close()
		}()
	}
}

func (u *upstream) up(t hx.TB) bool {
	u.mu.Lock()
	defer u.mu.Unlock()
	if u.ln != nil {
		return true
	}
	if u.held != nil {
		u.held()
		u.held = nil
	}
	ln, err := net.Listen("tcp", u.addr)
	if err != nil {
		u.hold()
		return false // the port may have been taken by somebody else meanwhile: the action is skipped
	}
	u.ln = ln
	go u.loop(ln)
	return true
}

// stopListening refuses new connections but leaves the established ones alone.
func (u *upstream) stopListening() {
	u.mu.Lock()
	defer u.mu.Unlock()
	if u.ln != nil {
		_ = u.ln.Close()
		u.ln = nil
		u.hold()
	}
}

func (u *upstream) down() {
	u.mu.Lock()
	defer u.mu.Unlock()
	if u.ln != nil {
		_ = u.ln.Close()
		u.ln = nil
		u.hold()
	}
	for _, c := range u.conns {
		_ = c.Close()
	}
	u.conns = nil
}

// release gives the port back at the end of a case.
func (u *upstream) release() {
	u.down()
	u.mu.Lock()
	defer u.mu.Unlock()
	if u.held != nil {
		u.held()
		u.held = nil
	}
}

// ---- loading the proxy handler as Caddy does ----

func loadProxy(t hx.TB, cfg map[string]any) (*l4proxy.Handler, func()) {
	ctx, cancel := caddy.NewContext(caddy.Context{Context: context.Background()})
	b, _ := json.Marshal(cfg)
	v, err := ctx.LoadModuleByID("layer4.handlers.proxy", b)
	if err != nil {
		cancel()
		t.Fatalf("provision proxy %s: %v", b, err)
	}
	return v.(*l4proxy.Handler), cancel
}

// a downstream connection that stays open (the client sends nothing) until it is released
type held struct {
	under *hx.ScriptConn
	done  chan error
}

func connect(h *l4proxy.Handler, hold bool) *held {
	end := hx.EndEOF
	if hold {
		end = hx.EndSilentReal
	}
	under := hx.NewScriptConn([][]byte{[]byte("x")}, end) // the marker byte that tells a proxied connection from a health check
	cx := layer4.WrapConnection(under, nil, zap.NewNop())
	hd := &held{under: under, done: make(chan error, 1)}
	go func() { hd.done <- h.Handle(cx, nil) }()
	return hd
}

func (hd *held) release() error {
	hd.under.SetEnd(hx.EndEOF)
	select {
	case err := <-hd.done:
		return err
	case <-time.After(5 * time.Second):
		return fmt.Errorf("handler did not return within 5 s after the client closed")
	}
}

func (hd *held) wait(d time.Duration) (error, bool) {
	select {
	case err := <-hd.done:
		return err, true
	case <-time.After(d):
		return nil, false
	}
}

// ---------- T1: passive health checking: out of rotation exactly while failures in the window >= max_fails ----------

func TestPassiveFailureWindow(t *testing.T) {
	rapid.Check(t, func(rt *rapid.T) {
		F := time.Duration(rapid.IntRange(200, 800).Draw(rt, "failDurationMs")) * time.Millisecond
		M := rapid.IntRange(1, 3).Draw(rt, "maxFails")
		passive := map[string]any{"fail_duration": F.String(), "max_fails": M}
		if rapid.IntRange(0, 3).Draw(rt, "maxFailsOmitted") == 0 {
			// documented default: with a fail_duration and no max_fails, one failure takes the upstream out
			M = 1
			delete(passive, "max_fails")
		}
		u1, u2 := newUpstream(rt, false), newUpstream(rt, true)
		defer u2.release()
		h, cancel := loadProxy(rt, map[string]any{
			"upstreams":      []map[string]any{{"dial": []string{u1.addr}}, {"dial": []string{u2.addr}}},
			"health_checks":  map[string]any{"passive": passive},
			"load_balancing": map[string]any{"selection": map[string]any{"policy": "first"}},
		})
		defer cancel()
		up1 := h.VerifUpstreams()[0]
		// model: the failures remembered, one per refused dial. The handler counted each of them somewhere between lo (before
		// the connection was started) and hi (after it had returned) and forgets it fail_duration later, so at a time T
		// the failure is certainly still remembered if T < lo+F, and is forgotten by a punctual handler if T > hi+F.
		// Verdicts of the kind "too early" follow from the first bound alone and are final. Verdicts of the kind "too
		// late" depend on timers firing on time in a process that may be starved of CPU: they are re-examined with
		// patience, and dropped if the stall monitor saw the process itself being held up meanwhile.
		type failEv struct{ lo, hi time.Time }
		var fails []failEv
		var history []string
		sure := func(at time.Time) (n int) { // failures that cannot have been forgotten by `at`
			for _, f := range fails {
				if at.Before(f.lo.Add(F)) {
					n++
				}
			}
			return
		}
		maybe := func(at time.Time) (n int) { // failures a punctual handler may still remember at `at`
			for _, f := range fails {
				if !at.After(f.hi.Add(F)) {
					n++
				}
			}
			return
		}
		caseStart := time.Now()
		// counterOK compares the peer's failure counter with the model; false = a violation was reported
		counterOK := func(what string) bool {
			t1 := time.Now()
			st := up1.VerifPeerState(0)
			t2 := time.Now()
			if st.Fails < 0 {
				hx.Fail(rt, "C11", "negative-counter", "failure count %d\n  history=%v", st.Fails, history)
				return false
			}
			if lower := sure(t2); st.Fails < lower {
				hx.Fail(rt, "C11", "fails-counter", "%s: the failure count of upstream 1 is %d, but %d failure(s) happened less than fail_duration=%v ago and cannot have expired\n  history=%v", what, st.Fails, lower, F, history)
				return false
			}
			if st.Fails > maybe(t1) {
				late := hx.Eventually(2*time.Second, 5*time.Millisecond, func() bool { now := time.Now(); return up1.VerifPeerState(0).Fails <= maybe(now) })
				if !late && hx.Punctual(caseStart, 40*time.Millisecond, "C11/lateness-verdict-dropped-after-stall") {
					hx.Fail(rt, "C11", "fails-counter", "%s: the failure count of upstream 1 is %d and stays there for 2 s, but only %d failure(s) happened within the last fail_duration=%v\n  history=%v", what, st.Fails, maybe(t1), F, history)
					return false
				}
				hx.Class("C11/forgotten-late-tolerated", 1)
			}
			return true
		}
		judged, expired := 0, false
		steps := rapid.IntRange(3, 14).Draw(rt, "steps")
		for s := 0; s < steps; s++ {
			if rapid.IntRange(0, 2).Draw(rt, "action") == 0 {
				d := time.Duration(rapid.IntRange(20, 500).Draw(rt, "sleepMs")) * time.Millisecond
				history = append(history, fmt.Sprintf("sleep(%v)", d))
				time.Sleep(d)
				continue
			}
			if rapid.IntRange(0, 3).Draw(rt, "concurrentBurst") == 0 {
				// several connections at the same instant: those that picked upstream 1 before its failures were
				// recorded all get a refused dial, and every one of these failures has to be remembered
				before := time.Now()
				k := rapid.IntRange(2, 8).Draw(rt, "burstSize")
				hds := make([]*held, k)
				for i := range hds {
					hds[i] = connect(h, false)
				}
				errs := 0
				for _, hd := range hds {
					if err, ok := hd.wait(3 * time.Second); !ok {
						if hx.Punctual(before, 40*time.Millisecond, "C11/lateness-verdict-dropped-after-stall") {
							hx.Fail(rt, "C11", "connect-hang", "a connection attempt did not finish within 3 s; history=%v", history)
						}
						return
					} else if err != nil {
						errs++
					}
				}
				after := time.Now()
				for i := 0; i < errs; i++ {
					fails = append(fails, failEv{before, after})
				}
				history = append(history, fmt.Sprintf("burst(%d)->%d refused", k, errs))
				if !counterOK(fmt.Sprintf("after %d simultaneous connections of which %d were refused by upstream 1", k, errs)) {
					return
				}
				continue
			}
			before := time.Now()
			hd := connect(h, false)
			err, ok := hd.wait(3 * time.Second)
			after := time.Now()
			if !ok {
				if hx.Punctual(before, 40*time.Millisecond, "C11/lateness-verdict-dropped-after-stall") {
					hx.Fail(rt, "C11", "connect-hang", "a connection attempt did not finish within 3 s; F=%v M=%d history=%v", F, M, history)
				}
				return
			}
			history = append(history, fmt.Sprintf("connect->%v", err))
			if maybe(before) < len(fails) {
				expired = true
			}
			if err != nil {
				// no retry is configured: the dial to upstream 1 was refused, so upstream 1 was in rotation
				if n := sure(after); n >= M {
					hx.Fail(rt, "C11", "passive-not-out-of-rotation", "%d failure(s) of upstream 1 lie within fail_duration=%v (max_fails=%d), yet the connection was sent to it again (error %v)\n  history=%v", n, F, M, err, history)
					return
				}
				if maybe(before) < M {
					judged++
				}
				fails = append(fails, failEv{before, after})
			} else if n := maybe(before); n < M {
				// skipped although fewer than max_fails failures are recent enough: the handler is late in forgetting, or wrong
				judged++
				back := hx.Eventually(2*time.Second, 20*time.Millisecond, func() bool {
					b := time.Now()
					if maybe(b) >= M {
						return true // the retries themselves have taken it out again
					}
					e, ok := connect(h, false).wait(3 * time.Second)
					if ok && e != nil {
						fails = append(fails, failEv{b, time.Now()})
						return true
					}
					return false
				})
				if !back && hx.Punctual(caseStart, 40*time.Millisecond, "C11/lateness-verdict-dropped-after-stall") {
					hx.Fail(rt, "C11", "passive-out-too-long", "only %d failure(s) of upstream 1 lie within fail_duration=%v (max_fails=%d), yet it was skipped, and still is 2 s later\n  history=%v", n, F, M, history)
					return
				}
				hx.Class("C11/forgotten-late-tolerated", 1)
			} else if sure(after) >= M {
				judged++
			}
			if !counterOK("after a connection attempt") {
				return
			}
		}
		// quiescence: every failure is forgotten after fail_duration
		time.Sleep(F + 120*time.Millisecond)
		if !hx.Eventually(3*time.Second, 10*time.Millisecond, func() bool { return up1.VerifPeerState(0).Fails == 0 && up1.VerifAvailable() }) {
			st := up1.VerifPeerState(0)
			if hx.Punctual(caseStart, 40*time.Millisecond, "C11/lateness-verdict-dropped-after-stall") {
				hx.Fail(rt, "C11", "fails-not-forgotten", "%v and 3 s more after the last event upstream 1 still has fails=%d available=%v (fail_duration %v)\n  history=%v", F+120*time.Millisecond, st.Fails, up1.VerifAvailable(), F, history)
			}
			return
		}
		hx.Case(hx.Hash("passive", F, M, fmt.Sprint(history)), len(fails) > 0 && (expired || len(fails) >= M), "C11/passive-window")
		hx.Class("C11/passive-judged-samples", int64(judged))
		if len(fails) > 0 {
			hx.Sample("passive", map[string]any{"fail_duration": F.String(), "max_fails": M, "history": history})
		}
	})
}

// ---------- T2: retries: every try_interval until try_duration has elapsed, then the last error ----------

func TestRetryWindow(t *testing.T) {
	rapid.Check(t, func(rt *rapid.T) {
		D := time.Duration(rapid.IntRange(0, 1000).Draw(rt, "tryDurationMs")) * time.Millisecond
		I := time.Duration(rapid.IntRange(50, 250).Draw(rt, "tryIntervalMs")) * time.Millisecond
		comeBack := time.Duration(-1)
		if D > 2*I+100*time.Millisecond && rapid.Bool().Draw(rt, "comesBack") {
			comeBack = time.Duration(rapid.IntRange(20, int((D-I-80*time.Millisecond)/time.Millisecond)).Draw(rt, "backAfterMs")) * time.Millisecond
		}
		// max_fails is normally out of reach (the passive check is only there to count attempts); when the upstream
		// stays down, some cases let the very first failures take it out of rotation, so that the later attempts of the
		// same connection find nothing to dial: the connection still fails with the last error it got, the refused dial
		maxFails := 100000
		if comeBack < 0 {
			maxFails = []int{100000, 100000, 1, 2}[rapid.IntRange(0, 3).Draw(rt, "maxFails")]
		}
		u1 := newUpstream(rt, false)
		defer u1.release()
		h, cancel := loadProxy(rt, map[string]any{
			"upstreams":      []map[string]any{{"dial": []string{u1.addr}}},
			"health_checks":  map[string]any{"passive": map[string]any{"fail_duration": "30s", "max_fails": maxFails}},
			"load_balancing": map[string]any{"try_duration": D.String(), "try_interval": I.String()},
		})
		defer cancel()
		start := time.Now()
		hd := connect(h, false)
		if comeBack >= 0 {
			time.Sleep(comeBack)
			if !u1.up(rt) {
				return // port lost; nothing to judge
			}
		}
		err, ok := hd.wait(D + I + 5*time.Second)
		el := time.Since(start)
		attempts := h.VerifUpstreams()[0].VerifPeerState(0).Fails
		desc := fmt.Sprintf("try_duration=%v try_interval=%v upstream back after %v: returned %v after %v with %d failed attempt(s)", D, I, comeBack, err, el, attempts)
		if !ok {
			if hx.Punctual(start, 40*time.Millisecond, "C11/lateness-verdict-dropped-after-stall") {
				hx.Fail(rt, "C11", "retry-hang", "the handler did not return: %s", desc)
			}
			return
		}
		slack := max(time.Second, D)
		if comeBack >= 0 {
			if err != nil {
				// the upstream was back at least try_interval + 80 ms before the window closed - by this process's clock:
				// if the process was held up meanwhile neither side kept to its timetable and nothing can be said
				if hx.Punctual(start, 25*time.Millisecond, "C11/lateness-verdict-dropped-after-stall") {
					hx.Fail(rt, "C11", "retry-gave-up", "the upstream came back inside the retry window but the connection failed: %s", desc)
				}
				return
			}
		} else {
			if err == nil {
				hx.Fail(rt, "C11", "retry-no-error", "every dial was refused but the handler reported success: %s", desc)
				return
			}
			if D > 0 && el < D-5*time.Millisecond {
				hx.Fail(rt, "C11", "retry-gave-up-early", "gave up before try_duration had elapsed: %s", desc)
				return
			}
			if el > D+I+slack {
				if hx.Punctual(start, 40*time.Millisecond, "C11/lateness-verdict-dropped-after-stall") {
					hx.Fail(rt, "C11", "retry-too-long", "kept retrying far beyond try_duration + try_interval: %s", desc)
				}
				return
			}
			// "... and then fails with the last error": an attempt that finds no upstream available produces no error of
			// its own once a dial has failed, so what comes back is the refused dial
			var op *net.OpError
			if attempts >= 1 && !(errors.As(err, &op) && op.Op == "dial") {
				hx.Fail(rt, "C11", "retry-last-error", "%d dial(s) were refused, yet the connection failed with %q (%T) instead of the last dial error (max_fails=%d): %s", attempts, err, err, maxFails, desc)
				return
			}
			if maxFails < 100000 {
				hx.Case(hx.Hash("retry-out-of-rotation", D, I, maxFails), D > I, "C11/retry-after-upstream-left-rotation")
			}
			// attempts are at least try_interval apart: no more than elapsed/interval + 1 of them
			if maxAttempts := int(el/I) + 1; attempts > maxAttempts || attempts < 1 {
				hx.Fail(rt, "C11", "retry-interval", "%d dial attempts in %v cannot be try_interval=%v apart: %s", attempts, el, I, desc)
				return
			}
		}
		hx.Case(hx.Hash("retry", D, I, comeBack), D > 0, "C11/retry-window")
		hx.Sample(fmt.Sprint("retry", comeBack >= 0), map[string]any{"case": desc})
	})
}

// ---------- T3: active checks follow the listener ----------

func TestActiveChecks(t *testing.T) {
	rapid.Check(t, func(rt *rapid.T) {
		iv := time.Duration(rapid.IntRange(50, 100).Draw(rt, "intervalMs")) * time.Millisecond
		u1 := newUpstream(rt, rapid.Bool().Draw(rt, "startsUp"))
		defer u1.release()
		h, cancel := loadProxy(rt, map[string]any{
			"upstreams":     []map[string]any{{"dial": []string{u1.addr}}},
			"health_checks": map[string]any{"active": map[string]any{"interval": iv.String(), "timeout": "500ms"}},
		})
		defer cancel()
		up := h.VerifUpstreams()[0]
		var history []string
		isUp := u1.ln != nil
		// a long-lived proxied connection may be open while the peer stops accepting new ones (a backend that is
		// shutting down gracefully): the checks are about new connections and must notice all the same
		var hd *held
		if isUp && rapid.Bool().Draw(rt, "holdProxiedConnection") {
			time.Sleep(2 * iv)
			a := u1.accepts.Load()
			hd = connect(h, true)
			if !hx.Eventually(3*time.Second, time.Millisecond, func() bool { return u1.accepts.Load() > a }) {
				_ = hd.release()
				return
			}
			history = append(history, "proxied connection held open")
			defer func() { _ = hd.release() }()
		}
		for s := rapid.IntRange(2, 6).Draw(rt, "toggles"); s > 0; s-- {
			since := time.Now()
			time.Sleep(3*iv + 150*time.Millisecond)
			if got := !up.VerifPeerState(0).Unhealthy; got != isUp {
				// late, or wrong? give it 3 s more; a verdict of "never" is dropped if the process itself was held up
				if hx.Eventually(3*time.Second, 10*time.Millisecond, func() bool { return !up.VerifPeerState(0).Unhealthy == isUp }) {
					hx.Class("C11/active-check-late-tolerated", 1)
				} else {
					if hx.Punctual(since, 40*time.Millisecond, "C11/lateness-verdict-dropped-after-stall") {
						hx.Fail(rt, "C11", "active-health", "the peer is marked healthy=%v %v (3 intervals + 150 ms, and 3 s more) after the listener went up=%v; interval %v history=%v", got, 3*iv+150*time.Millisecond, isUp, iv, history)
					}
					return
				}
			}
			if isUp {
				if hd != nil {
					u1.stopListening() // established connections stay
				} else {
					u1.down()
				}
				isUp = false
			} else if u1.up(rt) {
				isUp = true
			}
			history = append(history, fmt.Sprintf("up=%v", isUp))
		}
		cl := []string{"C11/active-checks"}
		if hd != nil {
			cl = append(cl, "C11/active-checks-with-open-connection")
		}
		hx.Case(hx.Hash("active", iv, fmt.Sprint(history)), true, cl...)
		hx.Sample("active", map[string]any{"interval": iv.String(), "history": history})
	})
}

// ---------- T4: connection limits ----------

func TestConnectionLimits(t *testing.T) {
	rapid.Check(t, func(rt *rapid.T) {
		m := rapid.IntRange(1, 3).Draw(rt, "limit")
		viaPassive := rapid.Bool().Draw(rt, "viaUnhealthyConnectionCount")
		u1, u2 := newUpstream(rt, true), newUpstream(rt, true)
		defer u1.release()
		defer u2.release()
		// upstream 1 may have a second peer (every proxied connection goes to both); an outage then hits that second
		// peer only, so that the dial attempt fails half-way, after the first peer has been connected
		dial1, outage := []string{u1.addr}, u1
		if rapid.Bool().Draw(rt, "upstream1HasTwoPeers") {
			u1b := newUpstream(rt, true)
			defer u1b.release()
			dial1, outage = []string{u1.addr, u1b.addr}, u1b
		}
		cfg := map[string]any{"load_balancing": map[string]any{"selection": map[string]any{"policy": "first"}}}
		if viaPassive {
			cfg["upstreams"] = []map[string]any{{"dial": dial1}, {"dial": []string{u2.addr}, "max_connections": 1000}}
			cfg["health_checks"] = map[string]any{"passive": map[string]any{"unhealthy_connection_count": m}}
		} else {
			cfg["upstreams"] = []map[string]any{{"dial": dial1, "max_connections": m}, {"dial": []string{u2.addr}}}
		}
		h, cancel := loadProxy(rt, cfg)
		defer cancel()
		up1 := h.VerifUpstreams()[0]
		var open []*held // proxied connections currently held open, in the order they were opened
		var onU1 []bool
		var history []string
		settle := func() { time.Sleep(15 * time.Millisecond) }
		steps := rapid.IntRange(m+1, m+6).Draw(rt, "steps")
		for s := 0; s < steps; s++ {
			countU1 := 0
			for _, b := range onU1 {
				if b {
					countU1++
				}
			}
			if len(open) > 0 && rapid.IntRange(0, 2).Draw(rt, "release") == 0 {
				i := rapid.IntRange(0, len(open)-1).Draw(rt, "which")
				if err := open[i].release(); err != nil {
					hx.Fail(rt, "C11", "release", "%v; history=%v", err, history)
					return
				}
				history = append(history, fmt.Sprintf("release(#%d,u1=%v)", i, onU1[i]))
				open = append(open[:i], open[i+1:]...)
				onU1 = append(onU1[:i], onU1[i+1:]...)
				settle()
				continue
			}
			if countU1 < m && rapid.IntRange(0, 4).Draw(rt, "failedDial") == 0 {
				// an outage of upstream 1: a connection attempt that ends in a refused dial must not leave a trace
				// in the connection count
				outage.stopListening()
				err, ok := connect(h, false).wait(3 * time.Second)
				history = append(history, fmt.Sprintf("a peer of upstream 1 (%d peers) refuses, connect->%v", len(dial1), err))
				if !ok || !outage.up(rt) {
					for _, o := range open {
						_ = o.release()
					}
					return
				}
				settle()
				continue
			}
			a1, a2 := u1.accepts.Load(), u2.accepts.Load()
			hd := connect(h, true)
			// the connection has arrived when one of the upstreams has read its marker byte
			if !hx.Eventually(3*time.Second, time.Millisecond, func() bool { return u1.accepts.Load() > a1 || u2.accepts.Load() > a2 }) {
				hx.Class("C11/limit-case-abandoned-connection-did-not-arrive", 1)
				for _, o := range append(open, hd) {
					_ = o.release()
				}
				return
			}
			wentU1 := u1.accepts.Load() > a1
			history = append(history, fmt.Sprintf("open->u%d", map[bool]int{true: 1, false: 2}[wentU1]))
			if wentU1 && countU1 >= m {
				hx.Fail(rt, "C11", "connection-limit-exceeded", "upstream 1 already has %d open proxied connection(s) (limit %d, via unhealthy_connection_count=%v) and was given another one\n  history=%v", countU1, m, viaPassive, history)
				for _, o := range append(open, hd) {
					_ = o.release()
				}
				return
			}
			if !wentU1 && countU1 < m {
				hx.Fail(rt, "C11", "below-limit-skipped", "upstream 1 has only %d open connection(s) (limit %d) but was skipped\n  history=%v", countU1, m, history)
				for _, o := range append(open, hd) {
					_ = o.release()
				}
				return
			}
			open, onU1 = append(open, hd), append(onU1, wentU1)
			if st := up1.VerifPeerState(0); st.NumConns < 0 {
				hx.Fail(rt, "C11", "negative-counter", "connection count %d; history=%v", st.NumConns, history)
				return
			}
		}
		for _, o := range open {
			_ = o.release()
		}
		settle()
		if st := up1.VerifPeerState(0); st.NumConns != 0 {
			hx.Fail(rt, "C11", "conn-counter-at-rest", "all proxied connections have ended but upstream 1 still counts %d\n  history=%v", st.NumConns, history)
			return
		}
		hx.Case(hx.Hash("limit", m, viaPassive, fmt.Sprint(history)), true, "C11/connection-limit")
		hx.Sample(fmt.Sprint("limit", viaPassive), map[string]any{"limit": m, "via_unhealthy_connection_count": viaPassive, "history": history})
	})
}

// ---------- T5: a reload keeps the failure window; active recovery does not erase passive failures ----------

func TestReloadAndActiveRecoveryKeepTheWindow(t *testing.T) {
	rapid.Check(t, func(rt *rapid.T) {
		F := time.Duration(rapid.IntRange(700, 1000).Draw(rt, "failDurationMs")) * time.Millisecond
		iv := time.Duration(rapid.IntRange(40, 70).Draw(rt, "intervalMs")) * time.Millisecond
		withActive := rapid.Bool().Draw(rt, "activeChecks")
		reload := rapid.Bool().Draw(rt, "reload") || !withActive
		u1, u2 := newUpstream(rt, true), newUpstream(rt, true)
		defer u1.release()
		defer u2.release()
		cfg := map[string]any{
			"upstreams":      []map[string]any{{"dial": []string{u1.addr}}, {"dial": []string{u2.addr}}},
			"health_checks":  map[string]any{"passive": map[string]any{"fail_duration": F.String(), "max_fails": 1}},
			"load_balancing": map[string]any{"selection": map[string]any{"policy": "first"}},
		}
		if withActive {
			cfg["health_checks"].(map[string]any)["active"] = map[string]any{"interval": iv.String(), "timeout": "300ms"}
		}
		h, cancel := loadProxy(rt, cfg)
		defer func() { cancel() }()
		time.Sleep(2 * iv)
		// upstream 1 goes down and a connection hits it before any active check can notice: one passive failure
		u1.down()
		t0 := time.Now()
		if err, ok := connect(h, false).wait(3 * time.Second); !ok || err == nil {
			return // the active checker was faster than us (or the dial did not fail): nothing to judge in this run
		}
		history := []string{"u1 down", "connect->refused (failure remembered)"}
		if withActive {
			time.Sleep(3*iv + 60*time.Millisecond) // marked down by the active checker
		}
		if !u1.up(rt) {
			return
		}
		history = append(history, "u1 up")
		if withActive {
			time.Sleep(3*iv + 60*time.Millisecond) // marked up again
		}
		if reload {
			// a configuration reload: the new handler is provisioned, then the old one is cancelled
			h2, cancel2 := loadProxy(rt, cfg)
			cancel()
			h, cancel = h2, cancel2
			history = append(history, "reload")
			time.Sleep(20 * time.Millisecond)
		}
		if el := time.Since(t0); el < F-edge-50*time.Millisecond {
			a1 := u1.accepts.Load()
			err, ok := connect(h, false).wait(3 * time.Second)
			time.Sleep(10 * time.Millisecond)
			if ok && err == nil && u1.accepts.Load() > a1 && time.Since(t0) < F-edge {
				hx.Fail(rt, "C11", "passive-window-cut-short", "upstream 1 failed %v ago (fail_duration %v, max_fails 1) but is back in rotation already (active checks=%v, reload=%v)\n  history=%v", time.Since(t0), F, withActive, reload, history)
				return
			}
			history = append(history, "connect inside the window -> upstream 2")
		}
		// after the window the failure is forgotten: upstream 1 is used again and the counter is back at 0
		// (how long after is a matter of timers firing on time: if it has not happened yet it is given 3 s more, and a
		// verdict of "never" is dropped if the stall monitor saw this process being held up)
		time.Sleep(time.Until(t0.Add(F + 150*time.Millisecond)))
		up1 := h.VerifUpstreams()[0]
		if st := up1.VerifPeerState(0); st.Fails != 0 {
			if hx.Eventually(3*time.Second, 10*time.Millisecond, func() bool { return up1.VerifPeerState(0).Fails == 0 }) {
				hx.Class("C11/forgotten-late-tolerated", 1)
			} else {
				if hx.Punctual(t0, 40*time.Millisecond, "C11/lateness-verdict-dropped-after-stall") {
					hx.Fail(rt, "C11", "fails-not-forgotten", "%v after its only failure upstream 1 has a failure count of %d (fail_duration %v, active checks=%v, reload=%v)\n  history=%v", time.Since(t0), st.Fails, F, withActive, reload, history)
				}
				return
			}
		}
		var err error
		used := hx.Eventually(3*time.Second, 50*time.Millisecond, func() bool {
			a1 := u1.accepts.Load()
			var ok bool
			err, ok = connect(h, false).wait(3 * time.Second)
			return ok && err == nil && hx.Eventually(time.Second, time.Millisecond, func() bool { return u1.accepts.Load() > a1 })
		})
		if !used {
			if hx.Punctual(t0, 40*time.Millisecond, "C11/lateness-verdict-dropped-after-stall") {
				hx.Fail(rt, "C11", "passive-out-too-long", "%v after its only failure (fail_duration %v) upstream 1 is still not used (err=%v; active checks=%v, reload=%v)\n  history=%v", time.Since(t0), F, err, withActive, reload, history)
			}
			return
		}
		hx.Case(hx.Hash("reload-active", F, iv, withActive, reload), true, "C11/reload-or-active-recovery")
		hx.Sample(fmt.Sprint("t5", withActive, reload), map[string]any{"fail_duration": F.String(), "active_checks": withActive, "reload": reload, "history": history})
	})
}
