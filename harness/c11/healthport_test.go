package c11

import (
	"fmt"
	"net"
	"strconv"
	"testing"
	"time"

	"pgregory.net/rapid"

	"verifharness/hx"
)

// With a health_port the active checker probes another port of each peer's host. Several peers may live on one host:
// each of them is marked down while that port refuses and up again once it accepts - the probe's outcome belongs to
// every peer it speaks for.
func TestActiveChecksSharedHealthPort(t *testing.T) {
	rapid.Check(t, func(rt *rapid.T) {
		iv := time.Duration(rapid.IntRange(50, 100).Draw(rt, "intervalMs")) * time.Millisecond
		npeers := rapid.IntRange(2, 3).Draw(rt, "peersOnTheHost")
		oneUpstream := rapid.Bool().Draw(rt, "oneUpstreamSeveralDials")
		var peers []*upstream
		for i := 0; i < npeers; i++ {
			u := newUpstream(rt, true)
			defer u.release()
			peers = append(peers, u)
		}
		hp := newUpstream(rt, rapid.Bool().Draw(rt, "healthPortStartsUp"))
		defer hp.release()
		_, portStr, _ := net.SplitHostPort(hp.addr)
		port, _ := strconv.Atoi(portStr)
		var ups []map[string]any
		if oneUpstream {
			var dials []string
			for _, p := range peers {
				dials = append(dials, p.addr)
			}
			ups = []map[string]any{{"dial": dials}}
		} else {
			for _, p := range peers {
				ups = append(ups, map[string]any{"dial": []string{p.addr}})
			}
		}
		h, cancel := loadProxy(rt, map[string]any{
			"upstreams":     ups,
			"health_checks": map[string]any{"active": map[string]any{"interval": iv.String(), "timeout": "500ms", "port": port}},
		})
		defer cancel()
		healthy := func() (all, none bool) {
			all, none = true, true
			for _, u := range h.VerifUpstreams() {
				for i := 0; i < u.VerifNumPeers(); i++ {
					if u.VerifPeerState(i).Unhealthy {
						all = false
					} else {
						none = false
					}
				}
			}
			return
		}
		var history []string
		isUp := hp.ln != nil
		for s := rapid.IntRange(2, 5).Draw(rt, "toggles"); s > 0; s-- {
			since := time.Now()
			time.Sleep(3*iv + 150*time.Millisecond)
			ok := func() bool {
				all, none := healthy()
				return (isUp && all) || (!isUp && none)
			}
			if !ok() && !hx.Eventually(3*time.Second, 10*time.Millisecond, ok) {
				if hx.Punctual(since, 40*time.Millisecond, "C11/lateness-verdict-dropped-after-stall") {
					all, none := healthy()
					hx.Fail(rt, "C11", "active-health/shared-health-port", "%d peers on one host are probed on health port %d, which has been accepting=%v for %v (3 intervals + 150 ms, and 3 s more): all marked up=%v, all marked down=%v (one upstream with several dial addresses=%v); history=%v",
						npeers, port, isUp, time.Since(since), all, none, oneUpstream, history)
				}
				return
			}
			if isUp {
				hp.down()
				isUp = false
			} else if hp.up(rt) {
				isUp = true
			}
			history = append(history, fmt.Sprintf("health port up=%v", isUp))
		}
		hx.Case(hx.Hash("healthport", iv, npeers, oneUpstream, fmt.Sprint(history)), true, "C11/active-checks-shared-health-port")
		hx.Sample("healthport", map[string]any{"interval": iv.String(), "peers": npeers, "one_upstream": oneUpstream, "history": history})
	})
}
