// C07 — the TLS matcher reads SNI/ALPN/versions exactly as a real TLS server does.
package c07

import (
	"crypto/ecdsa"
	"crypto/elliptic"
	"crypto/rand"
	"crypto/tls"
	"crypto/x509"
	"crypto/x509/pkix"
	"encoding/binary"
	"encoding/hex"
	"encoding/json"
	"errors"
	"fmt"
	"math/big"
	"net"
	"reflect"
	"strings"
	"testing"
	"time"

	"github.com/caddyserver/caddy/v2"
	"github.com/caddyserver/caddy/v2/modules/caddytls"
	"go.uber.org/zap"
	"pgregory.net/rapid"

	"github.com/mholt/caddy-l4/layer4"
	"github.com/mholt/caddy-l4/modules/l4tls"

	"verifharness/hx"
	"verifharness/mx"
	"verifharness/rx"
)

func TestMain(m *testing.M) { hx.Main(m) }

// ---- reference: what Go's TLS server reports for the same bytes ----

var errStop = errors.New("verif: stop after ClientHello")

type refInfo struct {
	ok   bool
	info tls.ClientHelloInfo
}

type feedConn struct {
	data []byte
	off  int
}

func (c *feedConn) Read(p []byte) (int, error) {
	if c.off >= len(c.data) {
		return 0, errors.New("verif: no more client bytes")
	}
	n := copy(p, c.data[c.off:])
	c.off += n
	return n, nil
}
func (c *feedConn) Write(p []byte) (int, error)      { return len(p), nil }
func (c *feedConn) Close() error                     { return nil }
func (c *feedConn) LocalAddr() net.Addr              { return mx.TCPLocal }
func (c *feedConn) RemoteAddr() net.Addr             { return mx.TCPRemote }
func (c *feedConn) SetDeadline(time.Time) error      { return nil }
func (c *feedConn) SetReadDeadline(time.Time) error  { return nil }
func (c *feedConn) SetWriteDeadline(time.Time) error { return nil }

var serverCert = func() tls.Certificate {
	key, _ := ecdsa.GenerateKey(elliptic.P256(), rand.Reader)
	tpl := &x509.Certificate{SerialNumber: big.NewInt(7), Subject: pkix.Name{CommonName: "c07"}, NotBefore: time.Now().Add(-time.Hour), NotAfter: time.Now().Add(48 * time.Hour),
		KeyUsage: x509.KeyUsageDigitalSignature, ExtKeyUsage: []x509.ExtKeyUsage{x509.ExtKeyUsageServerAuth}, DNSNames: []string{"*"}}
	der, _ := x509.CreateCertificate(rand.Reader, tpl, tpl, &key.PublicKey, key)
	return tls.Certificate{Certificate: [][]byte{der}, PrivateKey: key}
}()

// reference feeds the client's first flight to crypto/tls's server side and captures the ClientHelloInfo.
func reference(firstFlight []byte) refInfo {
	var r refInfo
	srv := tls.Server(&feedConn{data: firstFlight}, &tls.Config{
		MinVersion: tls.VersionTLS10,
		GetConfigForClient: func(chi *tls.ClientHelloInfo) (*tls.Config, error) {
			r.ok = true
			r.info = *chi
			r.info.Conn = nil
			return nil, errStop
		}})
	_ = srv.Handshake()
	return r
}

// ---- generated client configurations ----

type clientSpec struct {
	ServerName string
	ALPN       []string
	Min, Max   uint16
	Suites     []uint16
	Curves     []tls.CurveID
	NoTickets  bool
	Resume     bool
}

var names = []string{"billing_api.internal.example.com", "_dmarc.example.org", strings.Repeat("l", 64) + ".example.com", "example.com", "a.b.c.d.example.org", "xn--bcher-kva.example", "localhost", "", "192.0.2.7", "UPPER.Example.COM",
	strings.Repeat("a", 63) + "." + strings.Repeat("b", 63) + "." + strings.Repeat("c", 63) + "." + strings.Repeat("d", 57), "x.test"}

func genSpec(t *rapid.T) clientSpec {
	cs := clientSpec{ServerName: names[rapid.IntRange(0, len(names)-1).Draw(t, "name")]}
	if rapid.IntRange(0, 3).Draw(t, "genName") == 0 {
		cs.ServerName = rapid.StringMatching(`[a-z0-9]([a-z0-9-]{0,20}[a-z0-9])?(\.[a-z0-9]([a-z0-9-]{0,10}[a-z0-9])?){0,4}`).Draw(t, "fqdn")
	}
	n := rapid.IntRange(0, 8).Draw(t, "nalpn")
	for i := 0; i < n; i++ {
		switch rapid.IntRange(0, 5).Draw(t, "alpnKind") {
		case 0:
			cs.ALPN = append(cs.ALPN, "h2")
		case 1:
			cs.ALPN = append(cs.ALPN, "http/1.1")
		case 2:
			cs.ALPN = append(cs.ALPN, strings.Repeat("p", rapid.IntRange(200, 255).Draw(t, "longProto")))
		case 3:
			cs.ALPN = append(cs.ALPN, []string{"H2", "HTTP/1.1", "Http/1.1", "h2C", "ACME-TLS/1"}[rapid.IntRange(0, 4).Draw(t, "caseProto")])
		default:
			cs.ALPN = append(cs.ALPN, rapid.StringMatching(`[a-z0-9/.-]{1,12}`).Draw(t, "proto"))
		}
	}
	vs := []uint16{tls.VersionTLS10, tls.VersionTLS11, tls.VersionTLS12, tls.VersionTLS13}
	a, b := rapid.IntRange(0, 3).Draw(t, "minv"), rapid.IntRange(0, 3).Draw(t, "maxv")
	if a > b {
		a, b = b, a
	}
	cs.Min, cs.Max = vs[a], vs[b]
	if rapid.Bool().Draw(t, "suites") {
		all := tls.CipherSuites()
		for _, s := range all {
			if rapid.Bool().Draw(t, "suite") {
				cs.Suites = append(cs.Suites, s.ID)
			}
		}
		if len(cs.Suites) == 0 {
			cs.Suites = []uint16{all[0].ID}
		}
	}
	if rapid.Bool().Draw(t, "curves") {
		cs.Curves = rapid.Permutation([]tls.CurveID{tls.X25519, tls.CurveP256, tls.CurveP384, tls.CurveP521}).Draw(t, "curvePerm")[:rapid.IntRange(1, 4).Draw(t, "ncurves")]
	}
	cs.NoTickets = rapid.IntRange(0, 3).Draw(t, "noTickets") == 0
	cs.Resume = !cs.NoTickets && rapid.IntRange(0, 2).Draw(t, "resume") == 0
	return cs
}

func (cs clientSpec) config() *tls.Config {
	return &tls.Config{ServerName: cs.ServerName, NextProtos: cs.ALPN, MinVersion: cs.Min, MaxVersion: cs.Max, CipherSuites: cs.Suites,
		CurvePreferences: cs.Curves, SessionTicketsDisabled: cs.NoTickets, InsecureSkipVerify: true}
}

// firstFlight returns the bytes the client sends first; with Resume a full handshake against an in-process
// server is completed before, so that the hello carries a session ticket / PSK identity.
func (cs clientSpec) firstFlight() ([]byte, bool) {
	cfg := cs.config()
	resumed := false
	if cs.Resume {
		cfg.ClientSessionCache = tls.NewLRUClientSessionCache(4)
		cli, srv := net.Pipe()
		done := make(chan error, 1)
		go func() {
			s := tls.Server(srv, &tls.Config{Certificates: []tls.Certificate{serverCert}, MinVersion: tls.VersionTLS10, NextProtos: cs.ALPN})
			err := s.Handshake()
			if err == nil {
				buf := make([]byte, 1)
				_, _ = s.Read(buf) // lets the TLS 1.3 session ticket go out
			}
			_ = srv.Close()
			done <- err
		}()
		_ = cli.SetDeadline(time.Now().Add(3 * time.Second))
		c := tls.Client(cli, cfg)
		if err := c.Handshake(); err == nil {
			_, _ = c.Write([]byte("x"))
			buf := make([]byte, 1)
			_ = cli.SetReadDeadline(time.Now().Add(50 * time.Millisecond))
			_, _ = c.Read(buf) // processes the ticket
			resumed = true
		}
		_ = cli.Close()
		<-done
	}
	return mx.TLSClientHello(cfg), resumed
}

// ---- byte-level mutations of a hello (kept only if crypto/tls still accepts them) ----

type extension struct {
	typ  uint16
	data []byte
}

// splitHello parses the record into the fixed part and its extension list.
func splitHello(flight []byte) (prefix []byte, exts []extension, ok bool) {
	if len(flight) < 5+4 || flight[0] != 0x16 {
		return nil, nil, false
	}
	recLen := int(binary.BigEndian.Uint16(flight[3:5]))
	if len(flight) != 5+recLen || flight[5] != 1 {
		return nil, nil, false
	}
	p := 9 + 2 + 32
	if p >= len(flight) {
		return nil, nil, false
	}
	p += 1 + int(flight[p]) // session id
	if p+2 > len(flight) {
		return nil, nil, false
	}
	p += 2 + int(binary.BigEndian.Uint16(flight[p:])) // cipher suites
	if p+1 > len(flight) {
		return nil, nil, false
	}
	p += 1 + int(flight[p]) // compression methods
	if p+2 > len(flight) {
		return nil, nil, false
	}
	extLen := int(binary.BigEndian.Uint16(flight[p:]))
	if p+2+extLen != len(flight) {
		return nil, nil, false
	}
	prefix = flight[:p]
	e := flight[p+2:]
	for len(e) > 0 {
		if len(e) < 4 {
			return nil, nil, false
		}
		l := int(binary.BigEndian.Uint16(e[2:4]))
		if len(e) < 4+l {
			return nil, nil, false
		}
		exts = append(exts, extension{binary.BigEndian.Uint16(e[:2]), e[4 : 4+l]})
		e = e[4+l:]
	}
	return prefix, exts, true
}

// joinHello rebuilds the record with consistent lengths.
func joinHello(prefix []byte, exts []extension) []byte {
	var eb []byte
	for _, x := range exts {
		eb = binary.BigEndian.AppendUint16(eb, x.typ)
		eb = binary.BigEndian.AppendUint16(eb, uint16(len(x.data)))
		eb = append(eb, x.data...)
	}
	out := append([]byte(nil), prefix...)
	out = binary.BigEndian.AppendUint16(out, uint16(len(eb)))
	out = append(out, eb...)
	hsLen := len(out) - 9
	out[6], out[7], out[8] = byte(hsLen>>16), byte(hsLen>>8), byte(hsLen)
	binary.BigEndian.PutUint16(out[3:5], uint16(len(out)-5))
	return out
}

func mutate(t *rapid.T, flight []byte) ([]byte, string) {
	prefix, exts, ok := splitHello(flight)
	if !ok {
		return flight, "unparsed"
	}
	// the pre_shared_key extension must stay last (RFC 8446)
	var last *extension
	if n := len(exts); n > 0 && exts[n-1].typ == 41 {
		last = &exts[n-1]
		exts = exts[:n-1]
	}
	kind := rapid.IntRange(0, 4).Draw(t, "mutation")
	switch kind {
	case 4: // GREASE (RFC 8701), unassigned and assigned code points written over entries of the value lists, in place
		codes := []uint16{0x0a0a, 0x5a5a, 0xfafa, 0xeaea, 0x4242, 0x1301, 0x001d}
		code := func(label string) []byte {
			return binary.BigEndian.AppendUint16(nil, codes[rapid.IntRange(0, len(codes)-1).Draw(t, label)])
		}
		prefix = append([]byte(nil), prefix...)
		if rapid.Bool().Draw(t, "inSuites") {
			at := 9 + 2 + 32
			at += 1 + int(prefix[at])
			n := int(binary.BigEndian.Uint16(prefix[at:])) / 2
			if n > 0 {
				copy(prefix[at+2+2*rapid.IntRange(0, n-1).Draw(t, "suiteIdx"):], code("suiteCode"))
			}
		}
		for i := range exts {
			hdr := map[uint16]int{10: 2, 43: 1, 13: 2}[exts[i].typ] // supported_groups, supported_versions, signature_algorithms
			if hdr == 0 || !rapid.Bool().Draw(t, "inList") {
				continue
			}
			d := append([]byte(nil), exts[i].data...)
			if n := (len(d) - hdr) / 2; n > 0 {
				copy(d[hdr+2*rapid.IntRange(0, n-1).Draw(t, "listIdx"):], code("listCode"))
			}
			exts[i].data = d
		}
	case 0: // insert GREASE / unknown extensions
		for i := rapid.IntRange(1, 3).Draw(t, "ngrease"); i > 0; i-- {
			pos := rapid.IntRange(0, len(exts)).Draw(t, "greasePos")
			g := extension{[]uint16{0x0a0a, 0x1a1a, 0xfafa, 0xff55, 0x7777}[rapid.IntRange(0, 4).Draw(t, "greaseType")], rapid.SliceOfN(rapid.Byte(), 0, 20).Draw(t, "greaseData")}
			exts = append(exts[:pos], append([]extension{g}, exts[pos:]...)...)
		}
	case 1: // permute the extension order
		exts = rapid.Permutation(exts).Draw(t, "extPerm")
	case 2: // drop one extension
		if len(exts) > 1 {
			i := rapid.IntRange(0, len(exts)-1).Draw(t, "drop")
			exts = append(exts[:i:i], exts[i+1:]...)
		}
	case 3: // a second name of an unknown type in the SNI list, a padding extension
		for i := range exts {
			if exts[i].typ == 0 && len(exts[i].data) > 2 {
				list := append([]byte(nil), exts[i].data[2:]...)
				extra := append([]byte{0x7}, 0, 3, 'a', 'b', 'c') // name_type 7, not host_name
				if rapid.Bool().Draw(t, "extraFirst") {
					list = append(extra, list...)
				} else {
					list = append(list, extra...)
				}
				exts[i].data = append(binary.BigEndian.AppendUint16(nil, uint16(len(list))), list...)
			}
		}
		exts = append(exts, extension{21, make([]byte, rapid.IntRange(0, 300).Draw(t, "padding"))})
	}
	if last != nil {
		exts = append(exts, *last)
	}
	out, label := joinHello(prefix, exts), []string{"grease", "permuted", "dropped", "sni-extra-name+padding", "list-values"}[kind]
	// the version field of the record header says nothing about the hello inside: clients have sent 3.0 .. 3.4 there
	// (Go's own client always writes 3.1), and what a real server makes of each is the reference's business
	if v := rapid.IntRange(0, 9).Draw(t, "recordVersion"); v <= 4 && len(out) > 3 {
		out = append([]byte(nil), out...)
		out[1], out[2] = 3, byte(v)
		label += fmt.Sprintf("+record-version-3.%d", v)
	}
	return out, label
}

// ---- the comparison ----

func bareCtxMatcher(id string, cfg any) caddytls.ConnectionMatcher {
	b, _ := json.Marshal(cfg)
	v, err := rx.BareCtx().LoadModuleByID(id, b)
	if err != nil {
		panic(err)
	}
	return v.(caddytls.ConnectionMatcher)
}

func hexs(b []byte) string {
	if len(b) > 400 {
		return hex.EncodeToString(b[:400]) + fmt.Sprintf("...(%d bytes)", len(b))
	}
	return hex.EncodeToString(b)
}

func eqU16(a, b []uint16) bool { return len(a) == len(b) && (len(a) == 0 || reflect.DeepEqual(a, b)) }

func checkHello(t hx.TB, flight []byte, sniCfg, alpnCfg []string, class string, desc string) bool {
	ref := reference(flight)
	if !ref.ok {
		return false // crypto/tls does not accept it: outside the property's domain
	}
	recLen := int(binary.BigEndian.Uint16(flight[3:5]))
	raw := flight[5 : 5+recLen]
	got := l4tls.VerifParseRawClientHello(raw)
	g, w := got.ClientHelloInfo, ref.info
	fail := func(field string, gv, wv any) {
		hx.Fail(t, "C07", "parse/"+field, "%s differs from what crypto/tls's server reports for the same ClientHello: module %v, crypto/tls %v\n  client: %s\n  hello=%s", field, gv, wv, desc, hexs(flight))
	}
	switch {
	case g.ServerName != w.ServerName:
		fail("ServerName", g.ServerName, w.ServerName)
	case !(len(g.SupportedProtos) == 0 && len(w.SupportedProtos) == 0) && !reflect.DeepEqual(g.SupportedProtos, w.SupportedProtos):
		fail("SupportedProtos", g.SupportedProtos, w.SupportedProtos)
	case !eqU16(g.SupportedVersions, w.SupportedVersions):
		fail("SupportedVersions", g.SupportedVersions, w.SupportedVersions)
	case !eqU16(g.CipherSuites, w.CipherSuites):
		fail("CipherSuites", g.CipherSuites, w.CipherSuites)
	case !reflect.DeepEqual(append([]tls.CurveID{}, g.SupportedCurves...), append([]tls.CurveID{}, w.SupportedCurves...)):
		fail("SupportedCurves", g.SupportedCurves, w.SupportedCurves)
	case !reflect.DeepEqual(append([]uint8{}, g.SupportedPoints...), append([]uint8{}, w.SupportedPoints...)):
		fail("SupportedPoints", g.SupportedPoints, w.SupportedPoints)
	case !reflect.DeepEqual(append([]tls.SignatureScheme{}, g.SignatureSchemes...), append([]tls.SignatureScheme{}, w.SignatureSchemes...)):
		fail("SignatureSchemes", g.SignatureSchemes, w.SignatureSchemes)
	default:
		goto public
	}
	return true
public:
	// the public path: MatchTLS with sni/alpn sub-matchers must decide like the same sub-matchers on the reference info
	cfg := map[string]any{}
	want := true
	if sniCfg != nil {
		cfg["sni"] = sniCfg
		want = want && bareCtxMatcher("tls.handshake_match.sni", sniCfg).Match(&w)
	}
	if alpnCfg != nil {
		cfg["alpn"] = alpnCfg
		// protocol names are opaque byte strings (RFC 7301); a server holding alpnCfg as its NextProtos negotiates one
		// exactly when one of them equals one of the client's, byte for byte
		mutual := false
		for _, s := range alpnCfg {
			for _, c := range w.SupportedProtos {
				mutual = mutual || s == c
			}
		}
		want = want && mutual
	}
	cb, _ := json.Marshal(cfg)
	m := mx.MustMatcher("tls", string(cb))
	under := hx.NewScriptConn(nil, hx.EndEOF)
	under.Local, under.Remote = mx.TCPLocal, mx.TCPRemote
	cx := layer4.VerifNewConnection(under, flight, zap.NewNop())
	ok, err := layer4.MatcherSet{m}.Match(cx)
	if err != nil || ok != want {
		hx.Fail(t, "C07", "match-verdict", "MatchTLS %s answered %v (err %v); the same sni/alpn matchers on crypto/tls's view of the hello answer %v (server name %q, protos %q)\n  client: %s\n  hello=%s", cb, ok, err, want, w.ServerName, w.SupportedProtos, desc, hexs(flight))
		return true
	}
	repl := cx.Context.Value(layer4.ReplacerCtxKey).(*caddy.Replacer)
	if v, _ := repl.Get("l4.tls.server_name"); fmt.Sprint(v) != w.ServerName {
		hx.Fail(t, "C07", "placeholder/server_name", "{l4.tls.server_name} is %q, crypto/tls reports %q\n  client: %s", v, w.ServerName, desc)
		return true
	}
	legacy := binary.BigEndian.Uint16(raw[4:6])
	if v, _ := repl.Get("l4.tls.version"); fmt.Sprint(v) != fmt.Sprint(legacy) {
		hx.Fail(t, "C07", "placeholder/version", "{l4.tls.version} is %v, the hello's legacy_version is %d\n  client: %s", v, legacy, desc)
		return true
	}
	// an incomplete hello is never decided either way; a record that is no handshake never matches
	for _, cut := range []int{0, 1, 4, 5, 6, len(flight) / 2, len(flight) - 1} {
		if cut >= len(flight) {
			continue
		}
		if r := mx.Eval(m, flight[:cut], nil, false, false); r.V != mx.NeedMore {
			hx.Fail(t, "C07", "incomplete-decided", "MatchTLS answered %q on the first %d of %d bytes of a ClientHello (must ask for more)\n  hello=%s", r.V.String(), cut, len(flight), hexs(flight))
			return true
		}
	}
	for _, typ := range []byte{0x14, 0x15, 0x17, 0x18, 0x00, 0x80} {
		other := append([]byte{typ}, flight[1:]...)
		if r := mx.Eval(m, other, nil, false, false); r.V == mx.Yes {
			hx.Fail(t, "C07", "non-handshake-matched", "a record of type %#x matched", typ)
			return true
		}
	}
	nontrivial := (w.ServerName != "" && len(w.SupportedProtos) > 0) || strings.Contains(desc, "resumed=true") || len(w.SupportedVersions) < 4
	hx.Case(hx.Hash(flight, fmt.Sprint(sniCfg, alpnCfg)), nontrivial, "C07/"+class, fmt.Sprintf("C07/hello-len/%dxx", len(flight)/100), fmt.Sprintf("C07/verdict/%v", want))
	if nontrivial {
		hx.Sample(class+fmt.Sprint(want), map[string]any{"client": desc, "hello_len": len(flight), "server_name": w.ServerName, "protos": w.SupportedProtos, "versions": w.SupportedVersions, "sni_matcher": sniCfg, "alpn_matcher": alpnCfg, "verdict": want})
	}
	return true
}

func genMatcherCfg(t *rapid.T, cs clientSpec) (sni, alpn []string) {
	switch rapid.IntRange(0, 3).Draw(t, "sniCfg") {
	case 0:
	case 1:
		sni = []string{cs.ServerName}
		if cs.ServerName == "" {
			sni = []string{"example.com"}
		}
	case 2:
		sni = []string{"*.example.org", "*.b.c.d.example.org", "other.test", strings.ToLower(cs.ServerName)}
	default:
		sni = []string{"nomatch.invalid"}
	}
	switch rapid.IntRange(0, 4).Draw(t, "alpnCfg") {
	case 0:
	case 1:
		alpn = []string{"h2"}
	case 2:
		if len(cs.ALPN) > 0 {
			alpn = []string{"zz", cs.ALPN[len(cs.ALPN)-1]}
		} else {
			alpn = []string{"http/1.1"}
		}
	case 3:
		alpn = []string{"nomatch"}
	default:
		// names that differ from the client's only in letter case are different names
		alpn = []string{"h2c", "acme-tls/1"}
		if len(cs.ALPN) > 0 {
			p := cs.ALPN[0]
			if up := strings.ToUpper(p); up != p {
				alpn = append(alpn, up)
			} else {
				alpn = append(alpn, strings.ToLower(p))
			}
		}
	}
	return
}

func TestDifferential(t *testing.T) {
	accepted, rejected := 0, 0
	rapid.Check(t, func(rt *rapid.T) {
		cs := genSpec(rt)
		flight, resumed := cs.firstFlight()
		if len(flight) == 0 {
			return // the configuration admits no hello (e.g. no usable cipher suite for the version range)
		}
		desc := fmt.Sprintf("sni=%q alpn=%d min=%#x max=%#x suites=%d curves=%v notickets=%v resumed=%v", cs.ServerName, len(cs.ALPN), cs.Min, cs.Max, len(cs.Suites), cs.Curves, cs.NoTickets, resumed)
		sni, alpn := genMatcherCfg(rt, cs)
		class := "crypto-tls-hello"
		if resumed {
			class = "resumption-hello"
		}
		if rapid.IntRange(0, 2).Draw(rt, "mutated") == 0 {
			var kind string
			flight, kind = mutate(rt, flight)
			// (the class is the kind of mutation; the record-header version stamped on top is a class of its own)
			if base, rv, stamped := strings.Cut(kind, "+record-version-"); stamped {
				hx.Class("C07/record-header-version-"+rv, 1)
				class, desc = "mutated-"+base, desc+" mutation="+kind
			} else {
				class, desc = "mutated-"+kind, desc+" mutation="+kind
			}
		}
		if checkHello(rt, flight, sni, alpn, class, desc) {
			accepted++
		} else {
			rejected++
			hx.Class("C07/rejected-by-crypto-tls/"+class, 1)
		}
	})
}
