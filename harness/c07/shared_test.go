package c07

import (
	"fmt"
	"sync"
	"testing"

	"github.com/caddyserver/caddy/v2"
	"github.com/mholt/caddy-l4/layer4"
	"go.uber.org/zap"
	"pgregory.net/rapid"

	"verifharness/hx"
	"verifharness/mx"
)

// A tls matcher belongs to its route: every connection of that route goes
// through the same instance, many at a time. What it reports for a connection
// must be that connection's hello as crypto/tls reads it, whatever the other
// connections are sending.
func TestSharedMatcherManyConnections(t *testing.T) {
	rapid.Check(t, func(rt *rapid.T) {
		n := rapid.IntRange(2, 12).Draw(rt, "nconns")
		type conn struct {
			flight []byte
			name   string
			want   bool
			desc   string
		}
		sniCfg := []string{"example.com", "*.example.org", "x.test"}
		m := mx.MustMatcher("tls", `{"sni":["example.com","*.example.org","x.test"]}`)
		var conns []conn
		distinct := map[string]bool{}
		for i := 0; i < n; i++ {
			cs := genSpec(rt)
			cs.Resume = false
			flight, _ := cs.firstFlight()
			if len(flight) == 0 {
				continue
			}
			ref := reference(flight)
			if !ref.ok {
				continue
			}
			w := ref.info
			conns = append(conns, conn{flight, w.ServerName, bareCtxMatcher("tls.handshake_match.sni", sniCfg).Match(&w), fmt.Sprintf("sni=%q alpn=%d hello=%dB", cs.ServerName, len(cs.ALPN), len(flight))})
			distinct[w.ServerName] = true
		}
		if len(conns) < 2 {
			return
		}
		rounds := rapid.IntRange(5, 40).Draw(rt, "rounds")
		var wg sync.WaitGroup
		start := make(chan struct{})
		bad := make([]string, len(conns))
		for i, c := range conns {
			i, c := i, c
			wg.Add(1)
			go func() {
				defer wg.Done()
				<-start
				for r := 0; r < rounds && bad[i] == ""; r++ {
					under := hx.NewScriptConn(nil, hx.EndEOF)
					under.Local, under.Remote = mx.TCPLocal, mx.TCPRemote
					cx := layer4.VerifNewConnection(under, c.flight, zap.NewNop())
					ok, err := layer4.MatcherSet{m}.Match(cx)
					repl := cx.Context.Value(layer4.ReplacerCtxKey).(*caddy.Replacer)
					v, _ := repl.Get("l4.tls.server_name")
					if err != nil || ok != c.want || fmt.Sprint(v) != c.name {
						bad[i] = fmt.Sprintf("connection %d (%s), round %d: the shared matcher answered %v (err %v) with {l4.tls.server_name}=%q; crypto/tls reads server name %q from this hello and the sni filter answers %v on it",
							i, c.desc, r, ok, err, v, c.name, c.want)
					}
				}
			}()
		}
		close(start)
		wg.Wait()
		for _, b := range bad {
			if b != "" {
				hx.Fail(rt, "C07", "shared-matcher/concurrent-connections", "%s\n  %d connections were being matched at the same time by one matcher instance", b, len(conns))
				return
			}
		}
		hx.Class("C07/shared-matcher/evaluations", int64(rounds*len(conns)))
		hx.Case(hx.Hash("shared", fmt.Sprint(len(conns), rounds), conns[0].flight, conns[1].flight), len(distinct) >= 2, "C07/shared-matcher-concurrent")
		if len(distinct) >= 2 {
			hx.Sample("shared", map[string]any{"connections": len(conns), "rounds": rounds, "distinct_server_names": len(distinct)})
		}
	})
}
