package c07

import (
	"fmt"
	"testing"

	"github.com/caddyserver/caddy/v2"
	"github.com/mholt/caddy-l4/layer4"
	"go.uber.org/zap"
	"pgregory.net/rapid"

	"verifharness/hx"
	"verifharness/mx"
)

// TLS inside TLS (or a tls matcher on a pass-through route behind a terminated session): after the tls handler has
// replaced the connection by its plaintext, a tls matcher evaluated there reads the inner ClientHello - server name,
// verdict and placeholders are those crypto/tls reports for the inner hello, whatever the outer one said.
func TestInnerHelloAfterTermination(t *testing.T) {
	rapid.Check(t, func(rt *rapid.T) {
		outerSpec, innerSpec := genSpec(rt), genSpec(rt)
		outerSpec.Resume, innerSpec.Resume = false, false
		outer, _ := outerSpec.firstFlight()
		inner, _ := innerSpec.firstFlight()
		if len(outer) == 0 || len(inner) == 0 || len(inner) > 2000 {
			return
		}
		refIn := reference(inner)
		if !refIn.ok || !reference(outer).ok {
			return
		}
		sniCfg := []string{"example.com", "*.example.org", "x.test", "localhost"}
		m := mx.MustMatcher("tls", `{"sni":["example.com","*.example.org","x.test","localhost"]}`)
		w := refIn.info
		want := bareCtxMatcher("tls.handshake_match.sni", sniCfg).Match(&w)
		under := hx.NewScriptConn(nil, hx.EndEOF)
		under.Local, under.Remote = mx.TCPLocal, mx.TCPRemote
		cx := layer4.VerifNewConnection(under, outer, zap.NewNop())
		if _, err := (layer4.MatcherSet{m}).Match(cx); err != nil {
			return
		}
		in := hx.NewScriptConn([][]byte{inner}, hx.EndEOF)
		in.Local, in.Remote = mx.TCPLocal, mx.TCPRemote
		cx2 := cx.Wrap(in)
		if err := cx2.VerifPrefetch(); err != nil {
			rt.Fatalf("prefetch: %v", err)
		}
		ok, err := layer4.MatcherSet{m}.Match(cx2)
		repl := cx2.Context.Value(layer4.ReplacerCtxKey).(*caddy.Replacer)
		v, _ := repl.Get("l4.tls.server_name")
		if err != nil || ok != want || fmt.Sprint(v) != w.ServerName {
			hx.Fail(rt, "C07", "inner-hello-after-termination", "a tls matcher evaluated on the plaintext of a terminated session answered %v (err %v) with {l4.tls.server_name}=%q; crypto/tls reads server name %q from the inner hello and the sni filter answers %v on it (the outer hello carried %q)",
				ok, err, v, w.ServerName, want, outerSpec.ServerName)
			return
		}
		hx.Case(hx.Hash("inner", outer, inner), outerSpec.ServerName != innerSpec.ServerName, "C07/inner-hello-after-termination")
	})
}
