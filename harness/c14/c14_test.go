// C14 — protocol matchers accept exactly what the wire definition and the filters say.
package c14

import (
	"encoding/binary"
	"encoding/hex"
	"encoding/json"
	"fmt"
	"net"
	"net/netip"
	"net/url"
	"regexp"
	"strings"
	"testing"
	"time"

	"github.com/caddyserver/caddy/v2"
	"github.com/miekg/dns"
	"go.uber.org/zap"
	"pgregory.net/rapid"

	"github.com/mholt/caddy-l4/layer4"
	"github.com/mholt/caddy-l4/modules/l4openvpn"

	"verifharness/hx"
	"verifharness/mx"
)

func TestMain(m *testing.M) { hx.Main(m) }

const (
	must = iota
	mustNot
	unspecified
)

// pcase is one complete first message for one configured matcher together with
// the verdict the protocol definition and the matcher's documentation demand.
type pcase struct {
	matcher string
	cfg     any
	udp     bool
	in      []byte
	want    int
	why     string // which rule of the definition decides
	class   string // "well-formed", "filtered", "corrupted"
	remote  net.Addr
	local   net.Addr
	at      *time.Time // injected l4.conn.wrap_time
}

func pick[T any](t *rapid.T, label string, xs ...T) T {
	return xs[rapid.IntRange(0, len(xs)-1).Draw(t, label)]
}

func inList[T comparable](xs []T, x T) bool {
	for _, y := range xs {
		if y == x {
			return true
		}
	}
	return false
}

func prefixContains(ps []string, a netip.Addr) bool {
	for _, p := range ps {
		if pf, err := netip.ParsePrefix(p); err == nil && pf.Contains(a) {
			return true
		}
		if ad, err := netip.ParseAddr(p); err == nil && ad == a {
			return true
		}
	}
	return false
}

// ---------------- per-protocol generators with reference predicates ----------------

func genSSH(t *rapid.T) pcase {
	msg := mx.GenSSH(t)
	c := pcase{matcher: "ssh", in: msg, want: must, why: "identification string starts with SSH-", class: "well-formed"}
	if rapid.Bool().Draw(t, "corrupt") {
		i := rapid.IntRange(0, 3).Draw(t, "pos")
		msg[i] ^= byte(rapid.IntRange(1, 255).Draw(t, "xor"))
		c.want, c.why, c.class = mustNot, "one of the four bytes of SSH- altered", "corrupted"
	}
	return c
}

func genXMPP(t *rapid.T) pcase {
	msg := mx.GenXMPP(t)
	c := pcase{matcher: "xmpp", in: msg, want: must, why: "stream header with the jabber namespace in its first 50 bytes", class: "well-formed"}
	if !strings.Contains(string(msg[:50]), "jabber") {
		c.want = unspecified // the namespace starts later than the matcher looks
	}
	if rapid.Bool().Draw(t, "corrupt") {
		s := strings.Replace(string(msg), "jabber", "jabbor", -1)
		c.in, c.want, c.why, c.class = []byte(s), mustNot, "no jabber namespace", "corrupted"
	}
	return c
}

func genPostgres(t *rapid.T) pcase {
	c := pcase{matcher: "postgres", class: "well-formed"}
	switch rapid.IntRange(0, 5).Draw(t, "kind") {
	case 0:
		c.in, c.want, c.why = mx.PgSSLRequest(), must, "SSLRequest"
	case 1:
		b := mx.PgSSLRequest()
		binary.BigEndian.PutUint32(b[4:], 80877103^uint32(rapid.IntRange(1, 1<<16).Draw(t, "codeXor")))
		// other request codes with major version >= 3 parse as startup messages without parameters
		c.in, c.want, c.why, c.class = b, mustNot, "request code is not SSLRequest and carries no parameters", "corrupted"
	default:
		n := rapid.IntRange(1, 4).Draw(t, "nparams")
		ps := [][2]string{{"user", rapid.StringMatching(`[a-z]{1,8}`).Draw(t, "user")}}
		for i := 1; i < n; i++ {
			ps = append(ps, [2]string{pick(t, "key", "database", "application_name", "options", "client_encoding"), rapid.StringMatching(`[a-zA-Z0-9_]{1,10}`).Draw(t, "val")})
		}
		major := pick(t, "major", uint16(3), 3, 3, 2, 1)
		c.in = mx.PgStartup(major, uint16(rapid.IntRange(0, 2).Draw(t, "minor")), ps, true, -1)
		if major >= 3 {
			c.want, c.why = must, "StartupMessage, protocol 3.x, with parameters"
		} else {
			c.want, c.why, c.class = mustNot, "protocol major version below 3", "corrupted"
		}
	}
	return c
}

func genSocks4(t *rapid.T) pcase {
	var ip [4]byte
	copy(ip[:], rapid.SliceOfN(rapid.Byte(), 4, 4).Draw(t, "ip"))
	ver, cmd := pick(t, "ver", byte(4), 4, 4, 4, 5, 0), byte(rapid.IntRange(0, 3).Draw(t, "cmd"))
	port := uint16(pick(t, "port", 80, 443, 1080, 22, 65535, 0))
	cfg := map[string]any{}
	cmds := []byte{1, 2}
	if rapid.Bool().Draw(t, "cmdFilter") {
		names := pick(t, "cmds", []string{"CONNECT"}, []string{"BIND"}, []string{"connect", "Bind"})
		cfg["commands"] = names
		cmds = nil
		for _, n := range names {
			cmds = append(cmds, map[string]byte{"CONNECT": 1, "BIND": 2}[strings.ToUpper(n)])
		}
	}
	var ports []uint16
	if rapid.Bool().Draw(t, "portFilter") {
		ports = pick(t, "ports", []uint16{80, 443}, []uint16{1080}, []uint16{65535, 0})
		cfg["ports"] = ports
	}
	var nets []string
	if rapid.Bool().Draw(t, "netFilter") {
		// (a list of IPv6 networks only is a filter no SOCKS4 destination - always IPv4 - can satisfy)
		nets = pick(t, "nets", []string{"10.0.0.0/8"}, []string{"0.0.0.0/1"}, []string{"192.168.0.0/16", "128.0.0.0/1"}, []string{"::1"}, []string{"fd00::/8", "fe80::/10"}, []string{"2001:db8::/32", "10.0.0.0/8"})
		cfg["networks"] = nets
		if rapid.Bool().Draw(t, "ipInside") {
			ip = [4]byte{10, ip[1], ip[2], ip[3]}
		}
	}
	c := pcase{matcher: "socks4", cfg: cfg, in: mx.Socks4(ver, cmd, port, ip, "user"), class: "filtered"}
	switch {
	case ver != 4:
		c.want, c.why = mustNot, "VN is not 4"
	case !inList(cmds, cmd):
		c.want, c.why = mustNot, fmt.Sprintf("CD %d is not among the accepted commands %v", cmd, cmds)
	case ports != nil && !inList(ports, port):
		c.want, c.why = mustNot, fmt.Sprintf("DSTPORT %d is not among %v", port, ports)
	case nets != nil && !prefixContains(nets, netip.AddrFrom4(ip)):
		c.want, c.why = mustNot, fmt.Sprintf("DSTIP %v is outside %v", netip.AddrFrom4(ip), nets)
	default:
		c.want, c.why = must, "version, command, port and destination satisfy the filters"
	}
	return c
}

func genSocks5(t *rapid.T) pcase {
	allowed := []uint16{0, 1, 2}
	cfg := map[string]any{}
	if rapid.Bool().Draw(t, "methodFilter") {
		allowed = pick(t, "allowed", []uint16{0}, []uint16{2}, []uint16{0, 2, 128}, []uint16{255})
		cfg["auth_methods"] = allowed
	}
	ver := pick(t, "ver", byte(5), 5, 5, 4)
	var methods []byte
	for i := rapid.IntRange(0, 4).Draw(t, "nmethods"); i > 0; i-- {
		if rapid.IntRange(0, 3).Draw(t, "fromAllowed") != 0 {
			methods = append(methods, byte(allowed[rapid.IntRange(0, len(allowed)-1).Draw(t, "ai")]))
		} else {
			methods = append(methods, byte(rapid.IntRange(0, 255).Draw(t, "m")))
		}
	}
	c := pcase{matcher: "socks5", cfg: cfg, in: mx.Socks5(ver, methods), class: "filtered"}
	bad := false
	for _, m := range methods {
		if !inList(allowed, uint16(m)) {
			bad = true
		}
	}
	switch {
	case ver != 5:
		c.want, c.why = mustNot, "version is not 5"
	case len(methods) == 0:
		c.want, c.why = unspecified, "a greeting without methods is not covered by the matcher's documentation"
	case bad:
		c.want, c.why = mustNot, fmt.Sprintf("a requested method is not among the expected ones %v", allowed)
	default:
		c.want, c.why = must, "version 5 and every requested method is expected"
	}
	return c
}

func genProxyProto(t *rapid.T) pcase {
	msg := mx.GenProxyProto(t)
	c := pcase{matcher: "proxy_protocol", in: msg, want: must, why: "v1 line or v2 signature", class: "well-formed"}
	if rapid.Bool().Draw(t, "corrupt") {
		i := rapid.IntRange(0, 4).Draw(t, "pos")
		if msg[0] == 0x0D {
			i = rapid.IntRange(0, 11).Draw(t, "pos2")
		}
		msg[i] ^= byte(rapid.IntRange(1, 255).Draw(t, "xor"))
		c.want, c.why, c.class = mustNot, "signature byte altered", "corrupted"
	}
	return c
}

func genRegexp(t *rapid.T) pcase {
	pat := pick(t, "pattern", "^GET ", "^[A-Z]+ /", "HTTP", "^\\x16\\x03", "b+c", "(?i)^get")
	count := rapid.IntRange(1, 40).Draw(t, "count")
	var msg []byte
	if rapid.Bool().Draw(t, "http") {
		msg = mx.GenHTTP1(t)
	} else {
		msg = rapid.SliceOfN(rapid.SampledFrom([]byte("abcGET /HTP\x16\x03")), count, 60).Draw(t, "bytes")
	}
	for len(msg) < count {
		msg = append(msg, 'x')
	}
	c := pcase{matcher: "regexp", cfg: map[string]any{"pattern": pat, "count": count}, in: msg, class: "filtered"}
	if regexp.MustCompile(pat).Match(msg[:count]) {
		c.want, c.why = must, fmt.Sprintf("the first %d bytes match %q", count, pat)
	} else {
		c.want, c.why = mustNot, fmt.Sprintf("the first %d bytes do not match %q", count, pat)
	}
	return c
}

func genIP(t *rapid.T) pcase {
	remoteSide := rapid.Bool().Draw(t, "remoteSide")
	ranges := pick(t, "ranges", []string{"10.0.0.0/8"}, []string{"192.168.1.7"}, []string{"2001:db8::/32", "10.1.0.0/16"}, []string{"::1", "127.0.0.0/8"}, []string{"0.0.0.0/0"}, []string{"::/0"})
	addrs := []string{"10.1.2.3", "10.200.0.1", "192.168.1.7", "192.168.1.8", "2001:db8::5", "2001:db9::5", "::1", "127.0.0.1", "8.8.8.8", "::ffff:10.1.2.3"}
	a := netip.MustParseAddr(addrs[rapid.IntRange(0, len(addrs)-1).Draw(t, "addr")])
	tcp := &net.TCPAddr{IP: net.IP(a.AsSlice()), Port: rapid.IntRange(1, 65535).Draw(t, "port")}
	if a.Is4() && rapid.Bool().Draw(t, "sixteenByteForm") {
		// the same IPv4 address as net.ParseIP and a dual-stack listener hold it (it still prints as dotted IPv4)
		tcp.IP = tcp.IP.To16()
	}
	name := "local_ip"
	c := pcase{in: []byte("x"), class: "filtered", remote: mx.TCPRemote, local: mx.TCPLocal}
	if remoteSide {
		name, c.remote = "remote_ip", tcp
	} else {
		c.local = tcp
	}
	neg := rapid.Bool().Draw(t, "not")
	inside := prefixContains(ranges, a)
	if a.Is4In6() {
		// whether an IPv4-mapped IPv6 address belongs to an IPv4 range is not stated by the documentation
		c.want, c.why = unspecified, "IPv4-mapped IPv6 address"
	} else if inside != neg {
		c.want, c.why = must, fmt.Sprintf("%v inside %v = %v, negated = %v", a, ranges, inside, neg)
	} else {
		c.want, c.why = mustNot, fmt.Sprintf("%v inside %v = %v, negated = %v", a, ranges, inside, neg)
	}
	if neg {
		c.matcher, c.cfg = "not", []any{map[string]any{name: map[string]any{"ranges": ranges}}}
	} else {
		c.matcher, c.cfg = name, map[string]any{"ranges": ranges}
	}
	return c
}

func secs(s string) int {
	var h, m, sec int
	fmt.Sscanf(s, "%d:%d:%d", &h, &m, &sec)
	return h*3600 + m*60 + sec
}

func genClock(t *rapid.T) pcase {
	times := []string{"00:00:00", "00:00:01", "08:00:00", "12:00:00", "17:30:00", "23:59:59"}
	after, before := times[rapid.IntRange(0, len(times)-1).Draw(t, "after")], times[rapid.IntRange(0, len(times)-1).Draw(t, "before")]
	// offsets in seconds; zones with daylight saving time have one offset per season (the instant below is drawn
	// from the middle of January or of July, far from any transition)
	summer := rapid.Bool().Draw(t, "summer")
	zones := map[string]int{"": 0, "UTC": 0, "+02": 7200, "-03:30": -12600, "+05:45:00": 20700, "Asia/Tokyo": 9 * 3600, "America/Phoenix": -7 * 3600,
		"America/New_York": -5 * 3600, "Europe/Berlin": 3600, "Australia/Sydney": 11 * 3600}
	if summer {
		zones["America/New_York"], zones["Europe/Berlin"], zones["Australia/Sydney"] = -4*3600, 2*3600, 10*3600
	}
	var zn []string
	for k := range zones {
		zn = append(zn, k)
	}
	// map iteration order must not leak into the case: sort
	for i := range zn {
		for j := i + 1; j < len(zn); j++ {
			if zn[j] < zn[i] {
				zn[i], zn[j] = zn[j], zn[i]
			}
		}
	}
	zone := zn[rapid.IntRange(0, len(zn)-1).Draw(t, "zone")]
	cfg := map[string]any{"after": after, "before": before}
	if zone != "" {
		cfg["timezone"] = zone
	}
	// the instant: near a window edge or anywhere in the day
	a, b := secs(after), secs(before)
	if b == 0 {
		b = 86400 // 00:00:00 as the end of a window means midnight at the end of the day
	}
	if b < a {
		a, b = b, a // documented: the bounds are swapped
	}
	local := rapid.IntRange(0, 86399).Draw(t, "secondOfDay")
	if rapid.Bool().Draw(t, "nearEdge") {
		local = (pick(t, "edge", a, b, a, b) + pick(t, "delta", -1, 0, 1) + 86400) % 86400
	}
	day := time.Date(2026, 1, 15, 0, 0, 0, 0, time.UTC)
	if summer {
		day = time.Date(2026, 7, 15, 0, 0, 0, 0, time.UTC)
	}
	utc := day.Add(time.Duration(local-zones[zone]) * time.Second)
	c := pcase{matcher: "clock", cfg: cfg, in: []byte("x"), class: "filtered", at: &utc}
	if local >= a && local < b {
		c.want, c.why = must, fmt.Sprintf("local second %d lies in [%d,%d)", local, a, b)
	} else {
		c.want, c.why = mustNot, fmt.Sprintf("local second %d lies outside [%d,%d)", local, a, b)
	}
	return c
}

type dnsRule struct {
	Name, Type, Class                   string
	NameRegexp, TypeRegexp, ClassRegexp string
}

func (r dnsRule) json() map[string]any {
	m := map[string]any{}
	for k, v := range map[string]string{"name": r.Name, "type": r.Type, "class": r.Class, "name_regexp": r.NameRegexp, "type_regexp": r.TypeRegexp, "class_regexp": r.ClassRegexp} {
		if v != "" {
			m[k] = v
		}
	}
	return m
}

func (r dnsRule) matches(name, typ, class string) bool {
	ok := func(exact, re, v string) bool {
		if exact != "" && exact != v {
			return false
		}
		if re != "" && !regexp.MustCompile(re).MatchString(v) {
			return false
		}
		return true
	}
	return ok(r.Class, r.ClassRegexp, class) && ok(r.Type, r.TypeRegexp, typ) && ok(r.Name, r.NameRegexp, name)
}

func genDNS(t *rapid.T) pcase {
	udp := rapid.Bool().Draw(t, "udp")
	names := []string{"example.com.", "a.example.com.", "b.test.", "xn--bcher-kva.example."}
	qname := names[rapid.IntRange(0, len(names)-1).Draw(t, "qname")]
	qtype := pick(t, "qtype", dns.TypeA, dns.TypeAAAA, dns.TypeMX, dns.TypeTXT)
	qclass := pick(t, "qclass", uint16(dns.ClassINET), dns.ClassINET, dns.ClassCHAOS)
	m := mx.DNSQuery(uint16(rapid.IntRange(0, 65535).Draw(t, "id")), qname, qtype, qclass, rapid.Bool().Draw(t, "rd"))
	rules := []dnsRule{{Name: "example.com."}, {Type: "A"}, {Class: "CH"}, {NameRegexp: `^(|[a-z]+\.)example\.com\.$`}, {TypeRegexp: "^(MX|TXT)$"}, {Name: "b.test.", Type: "AAAA"}, {}}
	var allow, deny []dnsRule
	for i := rapid.IntRange(0, 2).Draw(t, "nallow"); i > 0; i-- {
		allow = append(allow, rules[rapid.IntRange(0, len(rules)-1).Draw(t, "allowRule")])
	}
	for i := rapid.IntRange(0, 2).Draw(t, "ndeny"); i > 0; i-- {
		deny = append(deny, rules[rapid.IntRange(0, len(rules)-2).Draw(t, "denyRule")])
	}
	defaultDeny, preferAllow := rapid.Bool().Draw(t, "defaultDeny"), rapid.Bool().Draw(t, "preferAllow")
	cfg := map[string]any{}
	if allow != nil {
		var a []any
		for _, r := range allow {
			a = append(a, r.json())
		}
		cfg["allow"] = a
	}
	if deny != nil {
		var a []any
		for _, r := range deny {
			a = append(a, r.json())
		}
		cfg["deny"] = a
	}
	if defaultDeny {
		cfg["default_deny"] = true
	}
	if preferAllow {
		cfg["prefer_allow"] = true
	}
	c := pcase{matcher: "dns", cfg: cfg, udp: udp, class: "filtered"}
	corrupt := rapid.IntRange(0, 7).Draw(t, "corrupt")
	switch corrupt {
	case 0:
		m.Response = true
	case 1:
		m.Rcode = dns.RcodeNameError
	case 2:
		m.Question = nil
	}
	b, err := mx.DNSMsg(m, !udp)
	if err != nil {
		c.in, c.want, c.why = []byte{0}, unspecified, "message could not be packed"
		return c
	}
	if corrupt == 3 {
		b = append(b, 0xAA) // a byte trailing the message
	}
	c.in = b
	typ, class := dns.TypeToString[qtype], dns.ClassToString[qclass]
	any := func(rs []dnsRule) bool {
		for _, r := range rs {
			if r.matches(qname, typ, class) {
				return true
			}
		}
		return false
	}
	switch {
	case corrupt == 0:
		c.want, c.why, c.class = mustNot, "QR bit set: a response, not a request", "corrupted"
	case corrupt == 1:
		c.want, c.why, c.class = mustNot, "non-zero RCODE in a request", "corrupted"
	case corrupt == 2:
		c.want, c.why, c.class = mustNot, "no question", "corrupted"
	case corrupt == 3:
		c.want, c.why, c.class = mustNot, "bytes trailing the message", "corrupted"
	case allow == nil && deny == nil:
		c.want, c.why, c.class = must, "well-formed query, no rules", "well-formed"
	default:
		allowed, denied := any(allow), any(deny)
		ok := false
		switch {
		case deny == nil:
			ok = allowed // only allow rules: deny all unless explicitly allowed
		case denied && allowed:
			ok = preferAllow
		case denied:
			ok = false
		case allowed:
			ok = true
		default:
			ok = !defaultDeny
		}
		c.why = fmt.Sprintf("question %s %s %s: allowed=%v denied=%v default_deny=%v prefer_allow=%v", qname, typ, class, allowed, denied, defaultDeny, preferAllow)
		if ok {
			c.want = must
		} else {
			c.want = mustNot
		}
	}
	return c
}

func genRDP(t *rapid.T) pcase {
	p := mx.GenRDPParts(t)
	cfg := map[string]any{}
	filter := rapid.IntRange(0, 5).Draw(t, "filter")
	if p.TokenIP != nil && rapid.IntRange(0, 3).Draw(t, "portBeyond16Bits") == 0 {
		p.TokenPortHigh = rapid.IntRange(1, 9).Draw(t, "portHigh")
	}
	switch filter {
	case 1:
		cfg["cookie_hash"] = pick(t, "hash", "user1", p.Cookie, "x")
	case 2:
		cfg["cookie_hash_regexp"] = pick(t, "hashRe", "^[a-m]", "^[A-Za-z]+$", "\\d")
	case 3:
		cfg["cookie_ips"] = pick(t, "ips", []string{"0.0.0.0/1"}, []string{"128.0.0.0/1"}, []string{"10.0.0.0/8"})
		if rapid.Bool().Draw(t, "withPorts") {
			cfg["cookie_ports"] = []uint16{3389, p.TokenPort}
		}
	case 4:
		cfg["custom_info"] = pick(t, "info", "lb=1", p.Custom, "zz")
	case 5:
		cfg["custom_info_regexp"] = pick(t, "infoRe", "=", "^[a-z]", "\\d$")
	}
	if v, ok := cfg["cookie_hash"]; ok && v == "" {
		cfg["cookie_hash"] = "user1"
	}
	if v, ok := cfg["custom_info"]; ok && v == "" {
		cfg["custom_info"] = "lb=1"
	}
	c := pcase{matcher: "rdp", cfg: cfg, in: mx.RDPWrap(mx.RDPPayload(p)), class: "filtered"}
	if filter == 0 {
		c.class = "well-formed"
	}
	// --- the reference predicate, from [MS-RDPBCGR] 2.2.1.1 and the matcher's documentation ---
	negOK := func() (bool, string) {
		if !p.NegReq {
			if p.Cookie == "" && p.TokenIP == nil && p.Custom == "" {
				return false, "the connection request carries no payload at all"
			}
			return true, ""
		}
		if p.Flags&^0x0B != 0 {
			return false, "undefined bits in RDP_NEG_REQ flags"
		}
		if p.Protocols&^0x1F != 0 {
			return false, "undefined bits in requestedProtocols"
		}
		if p.Protocols&8 != 0 && p.Protocols&2 == 0 {
			return false, "PROTOCOL_HYBRID_EX without PROTOCOL_HYBRID"
		}
		if p.Protocols&2 != 0 && p.Protocols&1 == 0 {
			return false, "PROTOCOL_HYBRID without PROTOCOL_SSL"
		}
		if (p.Flags&8 != 0) != p.CorrInfo {
			return false, "CORRELATION_INFO_PRESENT flag and the presence of RDP_NEG_CORRELATION_INFO disagree"
		}
		if p.CorrInfo {
			if p.Identity[0] == 0 || p.Identity[0] == 0xF4 {
				return false, "correlationId starts with 0x00 or 0xF4"
			}
			for _, b := range p.Identity {
				if b == 0x0D {
					return false, "correlationId contains 0x0D"
				}
			}
			for _, b := range p.Reserved {
				if b != 0 {
					return false, "reserved bytes of RDP_NEG_CORRELATION_INFO are not zero"
				}
			}
		}
		return true, ""
	}
	ok, why := negOK()
	switch {
	case !ok:
		c.want, c.why = mustNot, why
		if p.Custom != "" || (p.Cookie == "" && p.TokenIP == nil && !p.NegReq) {
			// free-form routing info has no syntax of its own: what follows it cannot be told from its content
			if p.Custom != "" {
				c.want = unspecified
			}
		}
	case filter == 1:
		if p.Cookie != "" && p.Cookie == cfg["cookie_hash"] {
			c.want, c.why = must, "mstshash cookie equals cookie_hash"
		} else {
			c.want, c.why = mustNot, "no mstshash cookie equal to cookie_hash"
		}
	case filter == 2:
		if p.Cookie != "" && regexp.MustCompile(cfg["cookie_hash_regexp"].(string)).MatchString(p.Cookie) {
			c.want, c.why = must, "mstshash cookie matches cookie_hash_regexp"
		} else {
			c.want, c.why = mustNot, "no mstshash cookie matching cookie_hash_regexp"
		}
	case p.TokenPortHigh > 0:
		// "msts=<ip>.<port>.0000" with a port field that is no 16-bit number is no routing token
		c.want, c.why = unspecified, "malformed routing token without a token filter"
		if filter == 3 {
			c.want, c.why = mustNot, "the port field of the routing token is not a 16-bit number, so there is no token with an allowed IP and port"
		}
	case filter == 3:
		okIP := p.TokenIP != nil && prefixContains(cfg["cookie_ips"].([]string), netip.AddrFrom4(*p.TokenIP))
		okPort := true
		if ports, has := cfg["cookie_ports"]; has {
			okPort = p.TokenIP != nil && inList(ports.([]uint16), p.TokenPort)
		}
		if okIP && okPort {
			c.want, c.why = must, "msts routing token carries an allowed IP (and port)"
		} else {
			c.want, c.why = mustNot, "no msts routing token with an allowed IP and port"
		}
	case filter == 4:
		if p.Cookie == "" && p.TokenIP == nil && p.Custom != "" && p.Custom == cfg["custom_info"] {
			c.want, c.why = must, "custom routing info equals custom_info"
		} else if p.Cookie != "" || p.TokenIP != nil || p.Custom == "" {
			c.want, c.why = mustNot, "no custom routing info"
			if p.Cookie != "" && "Cookie: mstshash="+p.Cookie == cfg["custom_info"] {
				c.want = unspecified
			}
		} else {
			c.want, c.why = mustNot, "custom routing info differs from custom_info"
		}
	case filter == 5:
		c.want, c.why = unspecified, "custom_info_regexp against cookies is not specified"
		if p.Cookie == "" && p.TokenIP == nil && p.Custom != "" {
			if regexp.MustCompile(cfg["custom_info_regexp"].(string)).MatchString(p.Custom) {
				c.want, c.why = must, "custom routing info matches custom_info_regexp"
			} else {
				c.want, c.why = mustNot, "custom routing info does not match custom_info_regexp"
			}
		}
	default:
		c.want, c.why = must, "well-formed connection request"
	}
	return c
}

func genWireGuard(t *rapid.T) pcase {
	zero := pick(t, "zero", uint32(0), 0, 0xFF770000, 0x00000100)
	msgZero := pick(t, "msgZero", zero, zero, 0, 0xFF770000, 0x12340000)
	cfg := map[string]any{}
	if zero != 0 {
		cfg["zero"] = zero
	}
	c := pcase{matcher: "wireguard", cfg: cfg, udp: true, class: "filtered"}
	kind := rapid.IntRange(0, 4).Draw(t, "kind")
	typ := uint32(1)
	switch kind {
	case 0:
		c.in = mx.WGInitiation(msgZero|1, rapid.SliceOfN(rapid.Byte(), 1, 8).Draw(t, "fill"))
	case 1:
		typ = 4
		c.in = mx.WGTransport(msgZero|4, rapid.Uint32().Draw(t, "recv"), rapid.Uint64().Draw(t, "ctr"), make([]byte, 16))
	case 2:
		typ = uint32(pick(t, "otherType", 2, 3, 0, 5))
		c.in = mx.WGInitiation(msgZero|typ, []byte{1})
	case 3:
		c.in = mx.WGInitiation(msgZero|1, []byte{1})[:147]
	default:
		c.in = append(mx.WGInitiation(msgZero|1, []byte{1}), 0)
	}
	reserved := msgZero&0xFFFFFF00 == zero&0xFFFFFF00
	switch {
	case kind == 2:
		c.want, c.why = mustNot, fmt.Sprintf("message type %d in a 148-byte datagram is no handshake initiation", typ)
	case kind == 3 || kind == 4:
		c.want, c.why = mustNot, "a handshake initiation is exactly 148 bytes"
	case !reserved:
		c.want, c.why = mustNot, fmt.Sprintf("reserved bytes %#x differ from the configured %#x", msgZero, zero)
	default:
		c.want, c.why = must, fmt.Sprintf("type %d message with the expected reserved bytes", typ)
	}
	return c
}

func otherKey() *l4openvpn.StaticKey {
	k := make([]byte, 256)
	for i := range k {
		k[i] = byte(i*11 + 1)
	}
	return &l4openvpn.StaticKey{KeyBytes: k}
}

func genOpenVPN(t *rapid.T) pcase {
	tcp := rapid.Bool().Draw(t, "tcp")
	session := rapid.Uint64Range(1, 1<<62).Draw(t, "session")
	now := uint32(time.Now().Unix())
	modes := pick(t, "modes", []string(nil), []string{"plain"}, []string{"auth"}, []string{"crypt"}, []string{"auth", "crypt"}, []string{"plain", "auth"})
	cfg := map[string]any{}
	if modes != nil {
		cfg["modes"] = modes
	}
	accepts := func(m string) bool { return modes == nil || inList(modes, m) }
	withKey := rapid.Bool().Draw(t, "groupKey")
	if withKey {
		cfg["group_key"] = hex.EncodeToString(mx.OVPNKey.KeyBytes)
	}
	// the key direction says which half of the group key signs tls-auth packets (normal: the client signs with
	// key[192:], inverse or bidirectional: with key[64:]); tls-crypt always uses the same halves, whatever it says
	cfgDir := ""
	if withKey && rapid.Bool().Draw(t, "withDirection") {
		cfgDir = pick(t, "direction", "normal", "inverse", "bidi", "Bidirectional", "INVERSE", "Normal")
		cfg["group_key_direction"] = cfgDir
	}
	dirKey := func(k *l4openvpn.StaticKey, dir string) *l4openvpn.StaticKey {
		d := strings.ToLower(dir)
		return &l4openvpn.StaticKey{KeyBytes: k.KeyBytes, Inverse: d == "inverse", Bidi: strings.HasPrefix(d, "bidi")}
	}
	half := func(dir string) int {
		if d := strings.ToLower(dir); d == "" || d == "normal" {
			return 192
		}
		return 64
	}
	ignoreTS := rapid.Bool().Draw(t, "ignoreTimestamp")
	if ignoreTS {
		cfg["ignore_timestamp"] = true
	}
	c := pcase{matcher: "openvpn", cfg: cfg, udp: !tcp, class: "filtered"}
	var msg []byte
	switch rapid.IntRange(0, 2).Draw(t, "kind") {
	case 0: // plain hard reset
		keyID, acks, pkt := byte(0), byte(0), uint32(0)
		sess := session
		bad := rapid.IntRange(0, 6).Draw(t, "corrupt")
		switch bad {
		case 1:
			keyID = byte(rapid.IntRange(1, 7).Draw(t, "keyid"))
		case 2:
			acks = 1
		case 3:
			pkt = uint32(rapid.IntRange(1, 9).Draw(t, "pkt"))
		case 4:
			sess = 0
		}
		op := byte(7)
		if bad == 5 {
			op = pick(t, "opcode", byte(1), 8, 4)
		}
		msg = mx.OVPNPlain(op, keyID, sess, acks, pkt)
		switch {
		case bad == 1:
			c.want, c.why, c.class = mustNot, "key id of a hard reset must be 0", "corrupted"
		case bad == 2:
			c.want, c.why, c.class = mustNot, "a first packet acknowledges nothing", "corrupted"
		case bad == 3:
			c.want, c.why, c.class = mustNot, "the first packet id is 0", "corrupted"
		case bad == 4:
			c.want, c.why, c.class = mustNot, "session id 0", "corrupted"
		case bad == 5:
			c.want, c.why, c.class = mustNot, "opcode is not P_CONTROL_HARD_RESET_CLIENT_V2", "corrupted"
		case !accepts("plain"):
			// a 14-byte packet cannot be an auth or crypt message
			c.want, c.why = mustNot, "plain mode is not among the accepted modes"
		default:
			c.want, c.why = must, "plain hard reset"
		}
	case 1: // tls-auth
		ad := l4openvpn.AuthDigests[rapid.IntRange(0, len(l4openvpn.AuthDigests)-1).Draw(t, "digest")]
		key := mx.OVPNKey
		wrongKey := rapid.IntRange(0, 3).Draw(t, "wrongKey") == 0
		if wrongKey {
			key = otherKey()
		}
		replay, ts := uint32(1), now
		bad := rapid.IntRange(0, 4).Draw(t, "corrupt")
		if bad == 1 {
			replay = uint32(rapid.IntRange(2, 9).Draw(t, "replay"))
		}
		if bad == 2 {
			ts = now - uint32(rapid.IntRange(60, 100000).Draw(t, "age"))
		}
		if bad == 3 {
			ts = now + uint32(rapid.IntRange(60, 100000).Draw(t, "ahead"))
		}
		digestFilter := ""
		if rapid.Bool().Draw(t, "digestFilter") {
			digestFilter = pick(t, "digestName", "SHA-256", "SHA-1", "MD5", "SHA-512")
			cfg["auth_digest"] = digestFilter
		}
		clientDir := cfgDir
		if rapid.IntRange(0, 2).Draw(t, "otherDirection") == 0 {
			clientDir = pick(t, "clientDirection", "normal", "inverse", "bidi")
		}
		msg = mx.OVPNAuth(session, ad, dirKey(key, clientDir), 0, replay, ts, 0, 0, 0)
		df := l4openvpn.AuthDigestFindByName(digestFilter)
		switch {
		case !accepts("auth"):
			c.want, c.why = unspecified, "auth mode not accepted (the packet may still look like another mode)"
			if modes != nil && len(modes) == 1 && modes[0] == "plain" {
				c.want, c.why = mustNot, "only plain mode accepted and this is no 14-byte plain packet"
			}
		case bad == 1:
			c.want, c.why, c.class = mustNot, "replay packet id of a first packet must be 1", "corrupted"
		case bad == 2 && !ignoreTS:
			c.want, c.why, c.class = mustNot, "timestamp far in the past", "corrupted"
		case bad == 3 && !ignoreTS:
			c.want, c.why, c.class = mustNot, "timestamp far in the future", "corrupted"
		case df != nil && df.Size != ad.Size:
			c.want, c.why = mustNot, "HMAC size differs from the configured auth_digest"
		case withKey && wrongKey:
			c.want, c.why = mustNot, "HMAC was made with another group key"
		case withKey && df != nil && df != ad:
			c.want, c.why = mustNot, "HMAC was made with another digest of the same size"
		case withKey && half(clientDir) != half(cfgDir):
			c.want, c.why = mustNot, fmt.Sprintf("HMAC was made with the other half of the group key (client direction %q, configured %q)", clientDir, cfgDir)
		default:
			c.want, c.why = must, "tls-auth hard reset signed as configured"
			if modes != nil && inList(modes, "crypt") && ad.Size == 32 && !withKey {
				c.want = must
			}
		}
	default: // tls-crypt
		key := mx.OVPNKey
		wrongKey := rapid.IntRange(0, 3).Draw(t, "wrongKey") == 0
		if wrongKey {
			key = otherKey()
		}
		replay := uint32(1)
		bad := rapid.IntRange(0, 3).Draw(t, "corrupt")
		if bad == 1 {
			replay = 7
		}
		b, err := mx.OVPNCrypt(session, key, replay, now, 0, 0)
		if err != nil {
			c.in, c.want, c.why = []byte{0}, unspecified, "could not build"
			return c
		}
		msg = b
		switch {
		case !accepts("crypt") && !accepts("auth"):
			c.want, c.why = mustNot, "neither crypt nor auth mode accepted and this is no plain packet"
		case !accepts("crypt"):
			c.want, c.why = unspecified, "crypt not accepted; the packet has the shape of an auth packet with a 32-byte HMAC"
		case bad == 1:
			c.want, c.why, c.class = unspecified, "replay id differs (could still pass as an auth packet)", "corrupted"
			if !accepts("auth") {
				c.want, c.why = mustNot, "replay packet id of a first packet must be 1"
			}
		case withKey && wrongKey:
			c.want, c.why = unspecified, "made with another key (an auth reading of the packet may still apply)"
			if !accepts("auth") {
				c.want, c.why = mustNot, "encrypted and signed with another group key"
			}
		default:
			c.want, c.why = must, fmt.Sprintf("tls-crypt hard reset made with the configured key (configured direction %q does not apply to tls-crypt)", cfgDir)
		}
	}
	if tcp {
		msg = mx.OVPNTCP(msg)
	}
	c.in = msg
	return c
}

func genWinbox(t *rapid.T) pcase {
	user := rapid.StringMatching(`[a-zA-Z0-9]([-#.0-9@A-Z_a-z]{0,14}[0-9A-Za-z])?`).Draw(t, "user")
	if rapid.IntRange(0, 5).Draw(t, "longUser") == 0 {
		user = strings.Repeat("u", rapid.IntRange(215, 240).Draw(t, "ulen"))
	}
	romon := rapid.Bool().Draw(t, "romon")
	cfg := map[string]any{}
	var modes []string
	if rapid.Bool().Draw(t, "modeFilter") {
		modes = pick(t, "modes", []string{"standard"}, []string{"romon"}, []string{"Standard", "ROMON"})
		cfg["modes"] = modes
	}
	userFilter, userRe := "", ""
	switch rapid.IntRange(0, 3).Draw(t, "userFilter") {
	case 1:
		userFilter = pick(t, "wantUser", user, "admin", "toor")
		cfg["username"] = userFilter
	case 2:
		userRe = pick(t, "userRe", "^[a-m]", "^[a-z0-9]+$", "\\d")
		cfg["username_regexp"] = userRe
	}
	klen, parity := 32, byte(rapid.IntRange(0, 1).Draw(t, "parity"))
	bad := rapid.IntRange(0, 5).Draw(t, "corrupt")
	switch bad {
	case 1:
		klen = pick(t, "klen", 31, 33)
	case 2:
		parity = byte(rapid.IntRange(2, 255).Draw(t, "badParity"))
	case 3:
		user = pick(t, "badUser", "-leading", "trailing.", "has space", "ü")
	}
	key := rapid.SliceOfN(rapid.Byte(), klen, klen).Draw(t, "key")
	c := pcase{matcher: "winbox", cfg: cfg, in: mx.Winbox(user, romon, key, parity), class: "filtered"}
	modeOK := modes == nil
	for _, m := range modes {
		if strings.EqualFold(m, "romon") == romon && (strings.EqualFold(m, "romon") || strings.EqualFold(m, "standard")) {
			modeOK = true
		}
	}
	switch {
	case bad == 1:
		c.want, c.why, c.class = mustNot, "public key is not 32 bytes", "corrupted"
	case bad == 2:
		c.want, c.why, c.class = mustNot, "parity byte is neither 0 nor 1", "corrupted"
	case bad == 3:
		c.want, c.why, c.class = mustNot, "user name violates the documented alphabet", "corrupted"
	case !modeOK:
		c.want, c.why = mustNot, fmt.Sprintf("mode (romon=%v) is not among %v", romon, modes)
	case userFilter != "" && userFilter != user:
		c.want, c.why = mustNot, "user name differs from the configured one"
	case userRe != "" && !regexp.MustCompile(userRe).MatchString(user):
		c.want, c.why = mustNot, "user name does not match username_regexp"
	case len(user) > 220:
		c.want, c.why = unspecified, "the matcher documents a limit on long user names"
	default:
		c.want, c.why = must, "well-formed auth message satisfying the filters"
	}
	return c
}

func genHTTP(t *rapid.T) pcase {
	method := pick(t, "method", "GET", "POST", "HEAD", "OPTIONS")
	host := pick(t, "host", "a.example.com", "b.example.com", "other.test")
	// (a target may carry percent-escapes and a query: path filters are about the path it denotes)
	target := pick(t, "path", "/", "/api/v1/x", "/static/a.css", "/apix", "/api/v1/a%20b", "/api/v1/x?q=1&r=%2F", "/static/%61.css")
	path := target
	if i := strings.IndexByte(path, '?'); i >= 0 {
		path = path[:i]
	}
	if dec, err := url.PathUnescape(path); err == nil {
		path = dec
	}
	hdrVal := pick(t, "hdr", "", "yes", "no")
	h2 := rapid.IntRange(0, 3).Draw(t, "h2") == 0
	set := map[string]any{}
	hostF, pathF, methodF, hdrF := []string(nil), []string(nil), []string(nil), ""
	if rapid.Bool().Draw(t, "hostFilter") {
		hostF = pick(t, "hostF", []string{"a.example.com"}, []string{"*.example.com"}, []string{"other.test", "b.example.com"})
		set["host"] = hostF
	}
	if rapid.Bool().Draw(t, "pathFilter") {
		pathF = pick(t, "pathF", []string{"/api/*"}, []string{"/"}, []string{"*.css", "/apix"}, []string{"/static/a.css"}, []string{"/api/v1/a b", "/apix"})
		set["path"] = pathF
	}
	if strings.Contains(target, "%") && rapid.Bool().Draw(t, "filterOnDecodedPath") {
		// the filter names the path the escaped target denotes; both protocol versions are asked
		pathF = []string{path}
		set["path"] = pathF
		h2 = rapid.Bool().Draw(t, "h2ForEscapedTarget")
	}
	if rapid.Bool().Draw(t, "methodFilter") {
		methodF = pick(t, "methodF", []string{"GET"}, []string{"POST", "HEAD"})
		set["method"] = methodF
	}
	if rapid.Bool().Draw(t, "headerFilter") {
		hdrF = pick(t, "hdrF", "yes", "*")
		set["header"] = map[string][]string{"X-Route": {hdrF}}
	}
	cfg := []any{}
	if len(set) > 0 {
		cfg = append(cfg, set)
	}
	var hdrs [][2]string
	if hdrVal != "" {
		hdrs = append(hdrs, [2]string{"X-Route", hdrVal})
	}
	c := pcase{matcher: "http", cfg: cfg, class: "filtered"}
	bad := rapid.IntRange(0, 5).Draw(t, "corrupt")
	if h2 {
		scheme := "http"
		c.in = mx.H2Prior(method, scheme, host, target, hdrs, rapid.IntRange(0, 3).Draw(t, "pre"))
	} else {
		ver := "1.1"
		if bad == 1 {
			ver = pick(t, "badVer", "1.", "x.y", "")
		}
		all := append([][2]string{{"Host", host}}, hdrs...)
		c.in = mx.HTTP1(method, target, ver, all, rapid.Bool().Draw(t, "crlf"), "")
		if bad == 2 {
			c.in = []byte(strings.Replace(string(c.in), " HTTP/", " HTTX/", 1))
		}
	}
	glob := func(pats []string, v string, hostStyle bool) bool {
		for _, p := range pats {
			switch {
			case p == v:
				return true
			case hostStyle && strings.HasPrefix(p, "*.") && strings.HasSuffix(v, p[1:]) && !strings.Contains(strings.TrimSuffix(v, p[1:]), "."):
				return true
			case !hostStyle && strings.HasSuffix(p, "*") && strings.HasPrefix(v, strings.TrimSuffix(p, "*")):
				return true
			case !hostStyle && strings.HasPrefix(p, "*") && strings.HasSuffix(v, strings.TrimPrefix(p, "*")):
				return true
			}
		}
		return false
	}
	switch {
	case !h2 && bad == 1:
		c.want, c.why, c.class = mustNot, "malformed HTTP version in the request line", "corrupted"
	case !h2 && bad == 2:
		c.want, c.why, c.class = mustNot, "request line does not end in HTTP/x.y", "corrupted"
	case hostF != nil && !glob(hostF, host, true):
		c.want, c.why = mustNot, fmt.Sprintf("host %s not in %v", host, hostF)
	case pathF != nil && !glob(pathF, path, false):
		c.want, c.why = mustNot, fmt.Sprintf("path %s not in %v", path, pathF)
	case methodF != nil && !inList(methodF, method):
		c.want, c.why = mustNot, fmt.Sprintf("method %s not in %v", method, methodF)
	case hdrF == "yes" && hdrVal != "yes":
		c.want, c.why = mustNot, "header X-Route is not 'yes'"
	case hdrF == "*" && hdrVal == "":
		c.want, c.why = mustNot, "header X-Route is absent"
	default:
		c.want, c.why = must, "well-formed request satisfying the filters"
	}
	return c
}

var gens = map[string]func(*rapid.T) pcase{
	"ssh": genSSH, "xmpp": genXMPP, "postgres": genPostgres, "socks4": genSocks4, "socks5": genSocks5, "proxy_protocol": genProxyProto,
	"regexp": genRegexp, "ip+not": genIP, "clock": genClock, "dns": genDNS, "rdp": genRDP, "wireguard": genWireGuard, "openvpn": genOpenVPN,
	"winbox": genWinbox, "http": genHTTP,
}

func evaluate(c pcase) (mx.Verdict, error, any) {
	cfg := ""
	if c.cfg != nil {
		b, _ := json.Marshal(c.cfg)
		cfg = string(b)
	}
	m, err := mx.NewMatcher(c.matcher, cfg)
	if err != nil {
		return mx.OtherErr, fmt.Errorf("provision: %v", err), nil
	}
	under := hx.NewScriptConn(nil, hx.EndEOF)
	under.Local, under.Remote = mx.TCPLocal, mx.TCPRemote
	if c.udp {
		under.Local, under.Remote = mx.UDPLocal, mx.UDPRemote
	}
	if c.remote != nil {
		under.Remote = c.remote
	}
	if c.local != nil {
		under.Local = c.local
	}
	cx := layer4.VerifNewConnection(under, c.in, zap.NewNop())
	if c.at != nil {
		cx.Context.Value(layer4.ReplacerCtxKey).(*caddy.Replacer).Set("l4.conn.wrap_time", *c.at)
	}
	var pan any
	var ok bool
	func() {
		defer func() { pan = recover() }()
		ok, err = layer4.MatcherSet{m}.Match(cx)
	}()
	switch {
	case pan != nil:
		return mx.Panicked, nil, pan
	case err == nil && ok:
		return mx.Yes, nil, nil
	case err == nil:
		return mx.No, nil, nil
	default:
		return mx.OtherErr, err, nil
	}
}

func check(t hx.TB, proto string, c pcase) {
	v, err, pan := evaluate(c)
	if err != nil && strings.HasPrefix(err.Error(), "provision:") {
		t.Fatalf("%s: %v (cfg %v)", proto, err, c.cfg)
	}
	cfgs, _ := json.Marshal(c.cfg)
	desc := fmt.Sprintf("matcher %s %s (udp=%v) on the complete message %s", c.matcher, cfgs, c.udp, hexs(c.in))
	if pan != nil {
		hx.Excluded("panic-is-C04")
		return
	}
	switch c.want {
	case must:
		if v != mx.Yes {
			hx.Fail(t, "C14", "must-match/"+proto, "%s\n  must match (%s) but the verdict is %q (err %v)", desc, c.why, v.String(), err)
			return
		}
	case mustNot:
		if v == mx.Yes {
			hx.Fail(t, "C14", "must-not-match/"+proto, "%s\n  must not match (%s) but it matched", desc, c.why)
			return
		}
	}
	w := []string{"must-match", "must-not-match", "unspecified"}[c.want]
	nontrivial := c.class != "well-formed" && c.want != unspecified
	hx.Case(hx.Hash(proto, string(cfgs), c.in, c.udp, fmt.Sprint(c.remote, c.local, c.at)), nontrivial, "C14/"+proto, "C14/"+w, "C14/"+c.class)
	if nontrivial {
		hx.Sample(proto+w, map[string]any{"matcher": c.matcher, "config": c.cfg, "message_hex": hexs(c.in[:min(len(c.in), 60)]), "expected": w, "rule": c.why})
	}
}

func hexs(b []byte) string {
	if len(b) > 300 {
		return hex.EncodeToString(b[:300]) + fmt.Sprintf("...(%d bytes)", len(b))
	}
	return hex.EncodeToString(b)
}

// TestReplay re-runs the minimised inputs of the defects this check found (replays/C14/*.json).
func TestReplay(t *testing.T) {
	n := 0
	for _, rc := range hx.LoadReplays("C14") {
		in, err := hex.DecodeString(rc["message_hex"])
		if err != nil {
			t.Fatalf("%s: %v", rc["_file"], err)
		}
		c := pcase{matcher: rc["matcher"], in: in, udp: rc["udp"] == "true", class: "replay", want: mustNot, why: rc["note"]}
		if rc["expect"] == "match" {
			c.want = must
		}
		if rc["cfg"] != "" {
			var cfg any
			if err := json.Unmarshal([]byte(rc["cfg"]), &cfg); err != nil {
				t.Fatalf("%s: %v", rc["_file"], err)
			}
			c.cfg = cfg
		}
		check(t, "replay/"+rc["matcher"], c)
		n++
	}
	hx.Class("C14/replay-files", int64(n))
}

func TestReferencePredicates(t *testing.T) {
	for proto, g := range gens {
		proto, g := proto, g
		t.Run(proto, func(t *testing.T) {
			rapid.Check(t, func(rt *rapid.T) { check(rt, proto, g(rt)) })
		})
	}
}
