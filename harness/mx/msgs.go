package mx

import (
	"bytes"
	"crypto/tls"
	"encoding/binary"
	"fmt"
	"net"
	"net/netip"
	"strings"
	"time"

	"github.com/miekg/dns"
	"golang.org/x/net/http2"
	"golang.org/x/net/http2/hpack"

	"github.com/mholt/caddy-l4/modules/l4openvpn"
)

// ---------- SSH / XMPP ----------

func SSH(proto, software, rest string) []byte {
	return []byte("SSH-" + proto + "-" + software + "\r\n" + rest)
}

func XMPP(to string, client bool) []byte {
	ns := "jabber:client"
	if !client {
		ns = "jabber:server"
	}
	return []byte("<?xml version='1.0'?><stream:stream to='" + to + "' xmlns='" + ns +
		"' xmlns:stream='http://etherx.jabber.org/streams' version='1.0'>")
}

// ---------- Postgres ----------

const PgSSLRequestCode = 80877103

func PgSSLRequest() []byte {
	b := make([]byte, 8)
	binary.BigEndian.PutUint32(b, 8)
	binary.BigEndian.PutUint32(b[4:], PgSSLRequestCode)
	return b
}

// PgStartup builds a StartupMessage; declLen < 0 means "use the real length".
func PgStartup(major, minor uint16, params [][2]string, terminate bool, declLen int64) []byte {
	var body bytes.Buffer
	_ = binary.Write(&body, binary.BigEndian, uint32(major)<<16|uint32(minor))
	for _, kv := range params {
		body.WriteString(kv[0])
		body.WriteByte(0)
		body.WriteString(kv[1])
		body.WriteByte(0)
	}
	if terminate {
		body.WriteByte(0)
	}
	out := make([]byte, 4, 4+body.Len())
	l := uint32(4 + body.Len())
	if declLen >= 0 {
		l = uint32(declLen)
	}
	binary.BigEndian.PutUint32(out, l)
	return append(out, body.Bytes()...)
}

// ---------- SOCKS ----------

func Socks4(ver, cmd byte, port uint16, ip [4]byte, user string) []byte {
	b := []byte{ver, cmd, byte(port >> 8), byte(port), ip[0], ip[1], ip[2], ip[3]}
	b = append(b, user...)
	return append(b, 0)
}

func Socks5(ver byte, methods []byte) []byte {
	b := []byte{ver, byte(len(methods))}
	return append(b, methods...)
}

// ---------- PROXY protocol (independent encoder, from the HAProxy spec) ----------

func ProxyV1(fam string, src, dst netip.AddrPort) []byte {
	if fam == "UNKNOWN" {
		return []byte("PROXY UNKNOWN\r\n")
	}
	return []byte(fmt.Sprintf("PROXY %s %s %s %d %d\r\n", fam, src.Addr(), dst.Addr(), src.Port(), dst.Port()))
}

var ProxyV2Sig = []byte{0x0D, 0x0A, 0x0D, 0x0A, 0x00, 0x0D, 0x0A, 0x51, 0x55, 0x49, 0x54, 0x0A}

type TLV struct {
	Type  byte
	Value []byte
}

// ProxyV2 builds a v2 header. cmd: 0 LOCAL, 1 PROXY. trans: 1 STREAM, 2 DGRAM.
// For LOCAL the address block may be empty (fam 0).
func ProxyV2(cmd byte, fam byte, trans byte, src, dst netip.AddrPort, tlvs []TLV) []byte {
	var addr []byte
	switch fam {
	case 1: // AF_INET
		s, d := src.Addr().As4(), dst.Addr().As4()
		addr = append(addr, s[:]...)
		addr = append(addr, d[:]...)
		addr = binary.BigEndian.AppendUint16(addr, src.Port())
		addr = binary.BigEndian.AppendUint16(addr, dst.Port())
	case 2: // AF_INET6
		s, d := src.Addr().As16(), dst.Addr().As16()
		addr = append(addr, s[:]...)
		addr = append(addr, d[:]...)
		addr = binary.BigEndian.AppendUint16(addr, src.Port())
		addr = binary.BigEndian.AppendUint16(addr, dst.Port())
	}
	for _, t := range tlvs {
		addr = append(addr, t.Type)
		addr = binary.BigEndian.AppendUint16(addr, uint16(len(t.Value)))
		addr = append(addr, t.Value...)
	}
	out := append([]byte(nil), ProxyV2Sig...)
	out = append(out, 0x20|cmd)
	if fam == 0 {
		out = append(out, 0)
	} else {
		out = append(out, fam<<4|trans)
	}
	out = binary.BigEndian.AppendUint16(out, uint16(len(addr)))
	return append(out, addr...)
}

// ---------- DNS ----------

// DNSMsg packs a DNS message; tcp adds the 2-byte length prefix.
func DNSMsg(m *dns.Msg, tcp bool) ([]byte, error) {
	b, err := m.Pack()
	if err != nil {
		return nil, err
	}
	if tcp {
		out := make([]byte, 2, 2+len(b))
		binary.BigEndian.PutUint16(out, uint16(len(b)))
		return append(out, b...), nil
	}
	return b, nil
}

func DNSQuery(id uint16, name string, qtype, qclass uint16, rd bool) *dns.Msg {
	m := new(dns.Msg)
	m.Id = id
	m.RecursionDesired = rd
	m.Question = []dns.Question{{Name: dns.Fqdn(name), Qtype: qtype, Qclass: qclass}}
	return m
}

// ---------- RDP ----------

type RDPParts struct {
	Cookie    string // "Cookie: mstshash=<hash>\r\n" form: hash only; "" = absent
	TokenIP   *[4]byte
	TokenPort uint16
	Custom    string // custom info, "" = absent
	NegReq    bool
	Flags     byte
	Protocols uint32
	CorrInfo  bool
	Identity  [16]byte
	Reserved  [16]byte
	// TokenPortHigh > 0: the port field of the routing token is written as a decimal beyond 16 bits whose low
	// 16 bits are those of TokenPort (not a port number at all)
	TokenPortHigh int
}

// RDPTokenCookieHigh is RDPTokenCookie with high*65536 added to the port field.
func RDPTokenCookieHigh(ip [4]byte, port uint16, high int) string {
	ipNum := binary.LittleEndian.Uint32(ip[:])
	var pb [2]byte
	binary.BigEndian.PutUint16(pb[:], port)
	portNum := int(binary.LittleEndian.Uint16(pb[:])) + high*65536
	return fmt.Sprintf("Cookie: msts=%d.%d.0000\r\n", ipNum, portNum)
}

func RDPTokenCookie(ip [4]byte, port uint16) string {
	// the IP and the port are written as decimal numbers of their little-endian interpretation
	ipNum := binary.LittleEndian.Uint32(ip[:])
	var pb [2]byte
	binary.BigEndian.PutUint16(pb[:], port)
	portNum := binary.LittleEndian.Uint16(pb[:])
	return fmt.Sprintf("Cookie: msts=%d.%d.0000\r\n", ipNum, portNum)
}

func RDPPayload(p RDPParts) []byte {
	var pl []byte
	switch {
	case p.Cookie != "":
		pl = append(pl, "Cookie: mstshash="+p.Cookie+"\r\n"...)
	case p.TokenIP != nil:
		opt := RDPTokenCookie(*p.TokenIP, p.TokenPort)
		if p.TokenPortHigh > 0 {
			opt = RDPTokenCookieHigh(*p.TokenIP, p.TokenPort, p.TokenPortHigh)
		}
		total := 11 + len(opt)
		tok := []byte{3, 0, byte(total >> 8), byte(total), byte(total - 5), 0xE0, 0, 0, 0, 0, 0}
		pl = append(pl, tok...)
		pl = append(pl, opt...)
	case p.Custom != "":
		pl = append(pl, p.Custom+"\r\n"...)
	}
	if p.NegReq {
		pl = append(pl, 0x01, p.Flags, 8, 0)
		pl = binary.LittleEndian.AppendUint32(pl, p.Protocols)
		if p.CorrInfo {
			pl = append(pl, 0x06, 0x00, 36, 0)
			pl = append(pl, p.Identity[:]...)
			pl = append(pl, p.Reserved[:]...)
		}
	}
	return pl
}

// RDPWrap puts TPKT and X.224 CR headers in front of payload.
func RDPWrap(payload []byte) []byte {
	total := 4 + 7 + len(payload)
	out := []byte{3, 0, byte(total >> 8), byte(total), byte(total - 5), 0xE0, 0, 0, 0, 0, 0}
	return append(out, payload...)
}

// ---------- WireGuard ----------

func WGInitiation(typ uint32, fill []byte) []byte {
	b := make([]byte, 148)
	for i := range b {
		if len(fill) > 0 {
			b[i] = fill[i%len(fill)]
		}
	}
	binary.LittleEndian.PutUint32(b, typ)
	return b
}

func WGTransport(typ uint32, receiver uint32, counter uint64, content []byte) []byte {
	b := make([]byte, 16, 16+len(content))
	binary.LittleEndian.PutUint32(b, typ)
	binary.LittleEndian.PutUint32(b[4:], receiver)
	binary.LittleEndian.PutUint64(b[8:], counter)
	return append(b, content...)
}

// ---------- Winbox ----------

// Winbox builds an auth message by hand (independent of the module's ToBytes):
// chunks of at most 255 bytes, the first typed 0x06, followers 0xFF.
func Winbox(user string, romon bool, key []byte, parity byte) []byte {
	u := user
	if romon {
		u += "+r"
	}
	body := append([]byte(u), 0)
	body = append(body, key...)
	body = append(body, parity)
	var out []byte
	for i := 0; i < len(body); i += 255 {
		end := i + 255
		if end > len(body) {
			end = len(body)
		}
		typ := byte(0xFF)
		if i == 0 {
			typ = 0x06
		}
		out = append(out, byte(end-i), typ)
		out = append(out, body[i:end]...)
	}
	return out
}

// ---------- HTTP ----------

func HTTP1(method, target, version string, hdrs [][2]string, crlf bool, body string) []byte {
	nl := "\n"
	if crlf {
		nl = "\r\n"
	}
	var sb strings.Builder
	sb.WriteString(method + " " + target + " HTTP/" + version + nl)
	for _, h := range hdrs {
		sb.WriteString(h[0] + ": " + h[1] + nl)
	}
	sb.WriteString(nl)
	sb.WriteString(body)
	return []byte(sb.String())
}

// H2PriorRawBlock builds an HTTP/2 prior-knowledge connection start whose HEADERS frame carries the given header
// block as is (for blocks no encoder would produce).
func H2PriorRawBlock(block []byte) []byte {
	var buf bytes.Buffer
	buf.WriteString(http2.ClientPreface)
	fr := http2.NewFramer(&buf, nil)
	_ = fr.WriteSettings()
	_ = fr.WriteHeaders(http2.HeadersFrameParam{StreamID: 1, BlockFragment: block, EndStream: true, EndHeaders: true})
	return buf.Bytes()
}

// H2Prior builds an HTTP/2 prior-knowledge connection start: preface, `pre`
// SETTINGS/WINDOW_UPDATE frames, then a HEADERS frame.
func H2Prior(method, scheme, authority, path string, hdrs [][2]string, pre int) []byte {
	var buf bytes.Buffer
	buf.WriteString(http2.ClientPreface)
	fr := http2.NewFramer(&buf, nil)
	for i := 0; i < pre; i++ {
		if i%2 == 0 {
			_ = fr.WriteSettings(http2.Setting{ID: http2.SettingInitialWindowSize, Val: 65535})
		} else {
			_ = fr.WriteWindowUpdate(0, 1<<20)
		}
	}
	var hb bytes.Buffer
	enc := hpack.NewEncoder(&hb)
	_ = enc.WriteField(hpack.HeaderField{Name: ":method", Value: method})
	_ = enc.WriteField(hpack.HeaderField{Name: ":scheme", Value: scheme})
	_ = enc.WriteField(hpack.HeaderField{Name: ":authority", Value: authority})
	_ = enc.WriteField(hpack.HeaderField{Name: ":path", Value: path})
	for _, h := range hdrs {
		_ = enc.WriteField(hpack.HeaderField{Name: strings.ToLower(h[0]), Value: h[1]})
	}
	_ = fr.WriteHeaders(http2.HeadersFrameParam{StreamID: 1, BlockFragment: hb.Bytes(), EndStream: true, EndHeaders: true})
	return buf.Bytes()
}

// ---------- TLS ----------

type captureConn struct {
	buf  bytes.Buffer
	done chan struct{}
}

func (c *captureConn) Read(p []byte) (int, error) {
	<-c.done
	return 0, fmt.Errorf("capture done")
}
func (c *captureConn) Write(p []byte) (int, error) {
	c.buf.Write(p)
	select {
	case <-c.done:
	default:
		close(c.done)
	}
	return len(p), nil
}
func (c *captureConn) Close() error                     { return nil }
func (c *captureConn) LocalAddr() net.Addr              { return TCPRemote }
func (c *captureConn) RemoteAddr() net.Addr             { return TCPLocal }
func (c *captureConn) SetDeadline(time.Time) error      { return nil }
func (c *captureConn) SetReadDeadline(time.Time) error  { return nil }
func (c *captureConn) SetWriteDeadline(time.Time) error { return nil }

// TLSClientHello captures the first flight a crypto/tls client emits for cfg.
func TLSClientHello(cfg *tls.Config) []byte {
	cc := &captureConn{done: make(chan struct{})}
	c := tls.Client(cc, cfg)
	_ = c.Handshake()
	return append([]byte(nil), cc.buf.Bytes()...)
}

// ---------- OpenVPN ----------

func OVPNPlain(opcode, keyID byte, session uint64, acks byte, pktID uint32) []byte {
	b := []byte{opcode<<3 | keyID&7}
	b = binary.BigEndian.AppendUint64(b, session)
	b = append(b, acks)
	return binary.BigEndian.AppendUint32(b, pktID)
}

// OVPNAuth builds a tls-auth hard reset: opcode|session|hmac|replay id|ts|acks|pkt id.
// If sk and ad are given the HMAC is computed over the documented pseudo header.
func OVPNAuth(session uint64, ad *l4openvpn.AuthDigest, sk *l4openvpn.StaticKey, hmacLen int, replayID, ts uint32, acks byte, pktID uint32, fill byte) []byte {
	hdr := byte(l4openvpn.OpcodeControlHardResetClientV2 << 3)
	var mac []byte
	if ad != nil && sk != nil {
		plain := binary.BigEndian.AppendUint32(nil, replayID)
		plain = binary.BigEndian.AppendUint32(plain, ts)
		plain = append(plain, hdr)
		plain = binary.BigEndian.AppendUint64(plain, session)
		plain = append(plain, acks)
		plain = binary.BigEndian.AppendUint32(plain, pktID)
		mac = ad.HMACGenerateOnClient(sk, plain)
	} else {
		mac = bytes.Repeat([]byte{fill}, hmacLen)
	}
	b := []byte{hdr}
	b = binary.BigEndian.AppendUint64(b, session)
	b = append(b, mac...)
	b = binary.BigEndian.AppendUint32(b, replayID)
	b = binary.BigEndian.AppendUint32(b, ts)
	b = append(b, acks)
	return binary.BigEndian.AppendUint32(b, pktID)
}

// OVPNCrypt builds a tls-crypt hard reset with the module's own encrypt/sign (needs a 256-byte key).
func OVPNCrypt(session uint64, sk *l4openvpn.StaticKey, replayID, ts uint32, acks byte, pktID uint32) ([]byte, error) {
	m := &l4openvpn.MessageCrypt{}
	m.Opcode = l4openvpn.OpcodeControlHardResetClientV2
	m.LocalSessionID = session
	m.ReplayPacketID, m.ReplayTimestamp = replayID, ts
	m.PrevPacketIDsCount, m.ThisPacketID = acks, pktID
	m.Cipher = l4openvpn.CryptCipherDefault
	if err := m.Sign(nil, sk); err != nil {
		return nil, err
	}
	if err := m.EncryptAndSign(nil, sk); err != nil {
		return nil, err
	}
	return m.ToBytes(), nil
}

// OVPNTCP prefixes the 2-byte length used on TCP.
func OVPNTCP(msg []byte) []byte {
	out := binary.BigEndian.AppendUint16(nil, uint16(len(msg)))
	return append(out, msg...)
}
