package mx

import (
	"os"
	"regexp"
	"strconv"
	"strings"
	"sync"
)

var quicOnce sync.Once

// LoadQUICSamples lifts the QUIC Initial packets out of the repository's
// own matcher test (no QUIC client can be driven offline deterministically).
func LoadQUICSamples() {
	quicOnce.Do(func() {
		repo := os.Getenv("VERIF_REPO")
		if repo == "" {
			repo = "/repo"
		}
		src, err := os.ReadFile(repo + "/modules/l4quic/matcher_test.go")
		if err != nil {
			return
		}
		re := regexp.MustCompile(`(?m)^var packet\d+ = \[\]byte\{([^}]*)\}`)
		for _, m := range re.FindAllStringSubmatch(string(src), -1) {
			var b []byte
			for _, tok := range strings.Split(m[1], ",") {
				tok = strings.TrimSpace(tok)
				if tok == "" {
					continue
				}
				v, err := strconv.ParseUint(tok, 0, 8)
				if err != nil {
					b = nil
					break
				}
				b = append(b, byte(v))
			}
			if len(b) >= 1200 {
				QUICInitials = append(QUICInitials, b)
			}
		}
	})
}
