package mx

import "context"

func contextBackground() context.Context { return context.Background() }
