package mx

import (
	"crypto/tls"
	"encoding/binary"
	"net/netip"
	"strings"
	"sync"
	"time"

	"github.com/miekg/dns"
	"pgregory.net/rapid"

	"github.com/mholt/caddy-l4/modules/l4openvpn"
)

// Gen draws a (mostly) well-formed first message of one protocol. The
// generators deliberately visit boundary values of every length-bearing
// field while keeping the length fields consistent with the data.
type Gen func(t *rapid.T) []byte

func pick[T any](t *rapid.T, label string, xs ...T) T {
	return xs[rapid.IntRange(0, len(xs)-1).Draw(t, label)]
}

func genBytes(t *rapid.T, label string, min, max int) []byte {
	return rapid.SliceOfN(rapid.Byte(), min, max).Draw(t, label)
}

var alnum = rapid.StringMatching(`[a-zA-Z0-9]{1,12}`)

func GenSSH(t *rapid.T) []byte {
	return SSH(pick(t, "proto", "2.0", "1.99", "1.5"), alnum.Draw(t, "sw"), string(genBytes(t, "rest", 0, 40)))
}

func GenXMPP(t *rapid.T) []byte {
	return XMPP(alnum.Draw(t, "to")+".example", rapid.Bool().Draw(t, "client"))
}

func GenPostgres(t *rapid.T) []byte {
	switch rapid.IntRange(0, 3).Draw(t, "pgkind") {
	case 0:
		return PgSSLRequest()
	case 1:
		n := rapid.IntRange(0, 4).Draw(t, "nparams")
		var ps [][2]string
		for i := 0; i < n; i++ {
			ps = append(ps, [2]string{pick(t, "k", "user", "database", "options", "application_name", "x"), alnum.Draw(t, "v")})
		}
		return PgStartup(uint16(rapid.IntRange(0, 4).Draw(t, "major")), uint16(rapid.IntRange(0, 2).Draw(t, "minor")), ps, rapid.Bool().Draw(t, "term"), -1)
	case 2:
		// self-consistent but minimal: length covers only part or none of the body
		body := genBytes(t, "body", 0, 12)
		l := uint32(4 + len(body))
		out := binary.BigEndian.AppendUint32(nil, l)
		return append(out, body...)
	default:
		// declared length small / zero / huge with arbitrary following bytes
		l := pick(t, "decl", uint32(0), 1, 2, 3, 4, 5, 6, 7, 8, 9, 0xFFFFFFFF, 0x7FFFFFFF, 0x10000)
		out := binary.BigEndian.AppendUint32(nil, l)
		return append(out, genBytes(t, "tail", 0, 16)...)
	}
}

func GenSocks4(t *rapid.T) []byte {
	var ip [4]byte
	copy(ip[:], genBytes(t, "ip", 4, 4))
	return Socks4(pick(t, "ver", byte(4), 4, 4, 5, 0), byte(rapid.IntRange(0, 3).Draw(t, "cmd")),
		uint16(rapid.IntRange(0, 65535).Draw(t, "port")), ip, alnum.Draw(t, "user"))
}

func GenSocks5(t *rapid.T) []byte {
	ver := pick(t, "ver", byte(5), 5, 5, 4)
	switch rapid.IntRange(0, 2).Draw(t, "methodsKind") {
	case 0: // the common methods only (so that filtered configurations see complete matching greetings)
		return Socks5(ver, rapid.SliceOfN(rapid.SampledFrom([]byte{1, 2, 2, 1, 0}), 1, 6).Draw(t, "commonMethods"))
	case 1:
		return Socks5(ver, rapid.SliceOfN(rapid.SampledFrom([]byte{1, 2}), 1, 4).Draw(t, "authMethods"))
	}
	return Socks5(ver, genBytes(t, "methods", 0, 255))
}

func genAddrPort(t *rapid.T, label string, v6 bool) netip.AddrPort {
	port := uint16(rapid.IntRange(0, 65535).Draw(t, label+"port"))
	if v6 {
		var a [16]byte
		copy(a[:], genBytes(t, label+"ip6", 16, 16))
		if a[0] == 0 { // avoid v4-mapped forms printing oddly in v1
			a[0] = 0x20
		}
		return netip.AddrPortFrom(netip.AddrFrom16(a), port)
	}
	var a [4]byte
	copy(a[:], genBytes(t, label+"ip4", 4, 4))
	return netip.AddrPortFrom(netip.AddrFrom4(a), port)
}

func GenProxyProto(t *rapid.T) []byte {
	v6 := rapid.Bool().Draw(t, "v6")
	src, dst := genAddrPort(t, "src", v6), genAddrPort(t, "dst", v6)
	var hdr []byte
	switch rapid.IntRange(0, 3).Draw(t, "ppkind") {
	case 0:
		fam := "TCP4"
		if v6 {
			fam = "TCP6"
		}
		hdr = ProxyV1(fam, src, dst)
	case 1:
		hdr = ProxyV1("UNKNOWN", src, dst)
	case 2:
		fam := byte(1)
		if v6 {
			fam = 2
		}
		var tlvs []TLV
		for i := rapid.IntRange(0, 3).Draw(t, "ntlv"); i > 0; i-- {
			tlvs = append(tlvs, TLV{Type: byte(rapid.IntRange(1, 0xEF).Draw(t, "tlvtype")), Value: genBytes(t, "tlvval", 0, 40)})
		}
		hdr = ProxyV2(1, fam, byte(rapid.IntRange(1, 2).Draw(t, "trans")), src, dst, tlvs)
	default:
		hdr = ProxyV2(0, 0, 0, src, dst, nil)
	}
	return append(hdr, genBytes(t, "payload", 0, 30)...)
}

var dnsTypes = []uint16{dns.TypeA, dns.TypeAAAA, dns.TypeMX, dns.TypeNS, dns.TypeTXT, dns.TypeANY, dns.TypeSOA, dns.TypeSRV, 65280}
var dnsClasses = []uint16{dns.ClassINET, dns.ClassCHAOS, dns.ClassANY, dns.ClassHESIOD, 77}

func GenDNSName(t *rapid.T) string {
	n := rapid.IntRange(1, 4).Draw(t, "labels")
	parts := make([]string, n)
	for i := range parts {
		parts[i] = rapid.StringMatching(`[a-z0-9]{1,10}`).Draw(t, "label")
	}
	return strings.Join(parts, ".") + "."
}

func genDNS(t *rapid.T, tcp bool) []byte {
	m := DNSQuery(uint16(rapid.IntRange(0, 65535).Draw(t, "id")), GenDNSName(t),
		pick(t, "qtype", dnsTypes...), pick(t, "qclass", dnsClasses...), rapid.Bool().Draw(t, "rd"))
	switch rapid.IntRange(0, 9).Draw(t, "dnsvariant") {
	case 0:
		m.Response = true
	case 1:
		m.Rcode = dns.RcodeServerFailure
	case 2:
		m.Zero = true
	case 3:
		m.Question = nil
	case 4:
		m.Question = append(m.Question, dns.Question{Name: GenDNSName(t), Qtype: dns.TypeA, Qclass: dns.ClassINET})
	case 5:
		m.SetEdns0(4096, true)
	}
	b, err := DNSMsg(m, tcp)
	if err != nil {
		return nil
	}
	if rapid.IntRange(0, 7).Draw(t, "dnstrail") == 0 {
		b = append(b, genBytes(t, "trail", 1, 8)...)
	}
	return b
}

func GenDNSTCP(t *rapid.T) []byte { return genDNS(t, true) }
func GenDNSUDP(t *rapid.T) []byte { return genDNS(t, false) }

func GenRDPParts(t *rapid.T) RDPParts {
	var p RDPParts
	switch rapid.IntRange(0, 3).Draw(t, "rdpfirst") {
	case 0:
		p.Cookie = rapid.StringMatching(`[a-zA-Z0-9/\\.@ -]{1,20}`).Draw(t, "hash")
	case 1:
		var ip [4]byte
		copy(ip[:], genBytes(t, "tokip", 4, 4))
		p.TokenIP, p.TokenPort = &ip, uint16(rapid.IntRange(0, 65535).Draw(t, "tokport"))
		if rapid.IntRange(0, 5).Draw(t, "tinyToken") == 0 {
			// the shortest tokens there are: both numbers of one or two decimal digits (the fields are the little-endian
			// readings of address and port, so these are addresses like 7.0.0.0 and ports like 0x0300)
			ip = [4]byte{byte(rapid.IntRange(0, 99).Draw(t, "tinyIP")), 0, 0, 0}
			p.TokenPort = uint16(rapid.IntRange(0, 12).Draw(t, "tinyPort")) << 8
		}
	case 2:
		p.Custom = rapid.StringMatching(`[a-zA-Z0-9=:. -]{1,30}`).Draw(t, "custom")
	}
	p.NegReq = rapid.Bool().Draw(t, "negreq")
	p.Flags = pick(t, "flags", byte(0), 1, 2, 3, 8, 9, 0x0b, 4, 0x10)
	p.Protocols = pick(t, "protos", uint32(0), 1, 3, 0x0b, 7, 0x1f, 2, 8, 0x0a, 0x20, 0x80000000)
	p.CorrInfo = p.NegReq && (p.Flags&8 != 0 || rapid.IntRange(0, 5).Draw(t, "forcecorr") == 0)
	copy(p.Identity[:], genBytes(t, "ident", 16, 16))
	if rapid.IntRange(0, 3).Draw(t, "identfix") != 0 {
		for i := range p.Identity {
			if p.Identity[i] == 0x0d {
				p.Identity[i] = 1
			}
		}
		if p.Identity[0] == 0 || p.Identity[0] == 0xF4 {
			p.Identity[0] = 7
		}
	}
	if rapid.IntRange(0, 4).Draw(t, "resvbad") == 0 {
		p.Reserved[rapid.IntRange(0, 15).Draw(t, "resvidx")] = 1
	}
	return p
}

func GenRDP(t *rapid.T) []byte {
	if rapid.IntRange(0, 6).Draw(t, "rdpShort") == 0 {
		// a request whose headers are consistent with a payload that ends early: inside (or right after) the
		// negotiation request or the correlation info it announces
		p := GenRDPParts(t)
		p.NegReq, p.CorrInfo = true, true
		p.Flags |= 8
		if rapid.Bool().Draw(t, "validProtocols") {
			p.Protocols = 3
		}
		pl := RDPPayload(p)
		cut := rapid.IntRange(0, min(44, len(pl)-1)).Draw(t, "cutTail")
		return RDPWrap(pl[:len(pl)-cut])
	}
	if rapid.IntRange(0, 5).Draw(t, "rdpraw") == 0 {
		// arbitrary payload inside consistent TPKT/X.224 headers, CR/LF heavy
		pl := rapid.SliceOfN(rapid.SampledFrom([]byte{0x0d, 0x0a, 'C', 'o', 0, 1, 3, 0xe0, 0x08}), 1, 40).Draw(t, "rawpayload")
		return RDPWrap(pl)
	}
	return RDPWrap(RDPPayload(GenRDPParts(t)))
}

func GenWireGuard(t *rapid.T) []byte {
	zero := pick(t, "zero", uint32(0), 0, 0xFF770000, 0x00000100)
	switch rapid.IntRange(0, 3).Draw(t, "wgkind") {
	case 0:
		return WGInitiation(zero|1, genBytes(t, "fill", 1, 16))
	case 1:
		return WGTransport(zero|4, uint32(rapid.Uint32().Draw(t, "recv")), rapid.Uint64().Draw(t, "ctr"), genBytes(t, "tag", 16, 16))
	case 2:
		return WGTransport(zero|4, 1, 2, genBytes(t, "content", 0, 200))
	default:
		return WGInitiation(uint32(rapid.IntRange(0, 5).Draw(t, "badtype")), nil)
	}
}

func GenWinbox(t *rapid.T) []byte {
	var user string
	switch rapid.IntRange(0, 4).Draw(t, "userkind") {
	case 0:
		user = rapid.StringMatching(`[a-zA-Z0-9]([-#.0-9@A-Z_a-z]{0,12}[0-9A-Za-z])?`).Draw(t, "user")
	case 1:
		// long names push the message over one 255-byte chunk
		user = strings.Repeat("u", rapid.IntRange(200, 260).Draw(t, "ulen"))
	case 2:
		user = strings.Repeat("a", rapid.IntRange(218, 224).Draw(t, "ulen2"))
	case 3:
		user = rapid.StringMatching(`[ -~]{0,10}`).Draw(t, "anyuser")
	default:
		user = "admin"
	}
	klen := pick(t, "klen", 32, 32, 32, 31, 33, 0)
	return Winbox(user, rapid.Bool().Draw(t, "romon"), genBytes(t, "key", klen, klen), byte(rapid.IntRange(0, 2).Draw(t, "parity")))
}

func GenHTTP1(t *rapid.T) []byte {
	method := pick(t, "method", "GET", "POST", "HEAD", "OPTIONS", "PRI", "get", "CONNECT")
	path := "/" + rapid.StringMatching(`[a-z0-9/._-]{0,20}`).Draw(t, "path")
	if rapid.IntRange(0, 3).Draw(t, "q") == 0 {
		path += "?" + rapid.StringMatching(`[a-z]{1,5}=[a-z0-9]{0,5}`).Draw(t, "query")
	}
	ver := pick(t, "ver", "1.1", "1.0", "1.1", "2.0", "0.9", "1.")
	hdrs := [][2]string{{"Host", alnum.Draw(t, "host") + ".example.com"}}
	for i := rapid.IntRange(0, 3).Draw(t, "nh"); i > 0; i-- {
		hdrs = append(hdrs, [2]string{"X-" + alnum.Draw(t, "hk"), alnum.Draw(t, "hv")})
	}
	return HTTP1(method, path, ver, hdrs, rapid.Bool().Draw(t, "crlf"), string(genBytes(t, "body", 0, 20)))
}

func GenH2(t *rapid.T) []byte {
	hdrs := [][2]string{}
	for i := rapid.IntRange(0, 3).Draw(t, "nh"); i > 0; i-- {
		hdrs = append(hdrs, [2]string{"x-" + strings.ToLower(alnum.Draw(t, "hk")), alnum.Draw(t, "hv")})
	}
	b := H2Prior(pick(t, "method", "GET", "POST"), pick(t, "scheme", "http", "https"), alnum.Draw(t, "auth")+".example.com",
		"/"+rapid.StringMatching(`[a-z0-9/]{0,12}`).Draw(t, "path"), hdrs, rapid.IntRange(0, 11).Draw(t, "pre"))
	if rapid.IntRange(0, 4).Draw(t, "h2len") == 0 {
		// rewrite the length of the first frame after the preface to a boundary value
		off := len("PRI * HTTP/2.0\r\n\r\nSM\r\n\r\n")
		if len(b) >= off+3 {
			l := pick(t, "framelen", uint32(0xFFFFFF), 0x4001, 0x4000, 0, 1<<20)
			b[off], b[off+1], b[off+2] = byte(l>>16), byte(l>>8), byte(l)
		}
	}
	return b
}

var helloCache sync.Map

func GenTLS(t *rapid.T) []byte {
	if rapid.IntRange(0, 7).Draw(t, "tinyRecord") == 0 {
		// a handshake record with a self-consistent tiny (or empty) body
		n := pick(t, "recLen", 0, 0, 1, 2, 3, 4, 5, 6, 38, 43)
		body := genBytes(t, "recBody", n, n)
		if n > 0 && rapid.Bool().Draw(t, "helloType") {
			body[0] = 1
		}
		rec := []byte{0x16, 3, byte(rapid.IntRange(0, 4).Draw(t, "recMinor")), byte(n >> 8), byte(n)}
		return append(rec, body...)
	}
	sni := pick(t, "sni", "example.com", "a.b.c.example.org", "", "xn--bcher-kva.example", strings.Repeat("a", 60)+".example.com")
	nalpn := rapid.IntRange(0, 3).Draw(t, "nalpn")
	alpn := []string{"h2", "http/1.1", "acme-tls/1"}[:nalpn]
	maxv := pick(t, "maxv", uint16(tls.VersionTLS13), tls.VersionTLS12, tls.VersionTLS11)
	key := sni + "|" + strings.Join(alpn, ",") + "|" + string(rune(maxv))
	if v, ok := helloCache.Load(key); ok {
		return append([]byte(nil), v.([]byte)...)
	}
	b := TLSClientHello(&tls.Config{ServerName: sni, NextProtos: alpn, MinVersion: tls.VersionTLS10, MaxVersion: maxv, InsecureSkipVerify: true})
	helloCache.Store(key, b)
	return append([]byte(nil), b...)
}

// OVPNKey is a fixed 256-byte static key (its content is irrelevant to the checks).
var OVPNKey = func() *l4openvpn.StaticKey {
	k := make([]byte, 256)
	for i := range k {
		k[i] = byte(i*7 + 3)
	}
	return &l4openvpn.StaticKey{KeyBytes: k}
}()

func genOVPN(t *rapid.T) []byte {
	session := rapid.Uint64Range(0, 3).Draw(t, "sessSmall")
	if rapid.Bool().Draw(t, "sessBig") {
		session = rapid.Uint64().Draw(t, "sess")
	}
	now := uint32(time.Now().Unix())
	ts := pick(t, "ts", now, now, now-100, 0)
	switch rapid.IntRange(0, 4).Draw(t, "ovpnkind") {
	case 0:
		return OVPNPlain(pick(t, "opcode", byte(7), 7, 7, 10, 1), byte(rapid.IntRange(0, 1).Draw(t, "keyid")), session,
			byte(rapid.IntRange(0, 1).Draw(t, "acks")), uint32(rapid.IntRange(0, 1).Draw(t, "pktid")))
	case 1:
		ad := l4openvpn.AuthDigests[rapid.IntRange(0, len(l4openvpn.AuthDigests)-1).Draw(t, "digest")]
		return OVPNAuth(session, ad, OVPNKey, 0, uint32(rapid.IntRange(0, 2).Draw(t, "replay")), ts, 0, 0, 0)
	case 2:
		hl := pick(t, "hmaclen", 16, 20, 28, 32, 36, 48, 64, 17, 15, 65)
		return OVPNAuth(session, nil, nil, hl, 1, ts, 0, 0, byte(rapid.IntRange(0, 255).Draw(t, "fill")))
	case 3:
		b, err := OVPNCrypt(session, OVPNKey, 1, ts, 0, 0)
		if err != nil {
			return nil
		}
		return b
	default:
		// crypt2-shaped: crypt message + wrapped key blob with consistent trailing length
		b, err := OVPNCrypt(session, OVPNKey, pick(t, "replay2", uint32(1), 0x0f000001, 2), ts, 0, 0)
		if err != nil {
			return nil
		}
		b[0] = l4openvpn.OpcodeControlHardResetClientV3 << 3
		wk := genBytes(t, "wkbody", 32+256, 32+256+rapid.IntRange(0, 300).Draw(t, "wkextra"))
		wk = binary.BigEndian.AppendUint16(wk, uint16(len(wk)+2))
		return append(b, wk...)
	}
}

func GenOVPNUDP(t *rapid.T) []byte { return genOVPN(t) }
func GenOVPNTCP(t *rapid.T) []byte {
	m := genOVPN(t)
	if rapid.IntRange(0, 9).Draw(t, "badlen") == 0 {
		out := binary.BigEndian.AppendUint16(nil, uint16(rapid.IntRange(0, 1500).Draw(t, "decl")))
		return append(out, m...)
	}
	return OVPNTCP(m)
}

// QUICInitials are filled by the checks from the packets in the repository's tests.
var QUICInitials [][]byte

func GenQUIC(t *rapid.T) []byte {
	if len(QUICInitials) == 0 || rapid.IntRange(0, 3).Draw(t, "quicsynth") == 0 {
		n := pick(t, "qlen", 1199, 1200, 1201, 1451, 1452, 1453, 100, 1)
		b := genBytes(t, "qbody", n, n)
		b[0] = pick(t, "qfirst", byte(0xC0), 0xC3, 0x40, 0x80, 0xFF)
		if n > 5 {
			copy(b[1:5], []byte{0, 0, 0, 1})
		}
		return b
	}
	return append([]byte(nil), QUICInitials[rapid.IntRange(0, len(QUICInitials)-1).Draw(t, "qidx")]...)
}

// Mutate applies byte-level mutations to msg.
func Mutate(t *rapid.T, msg []byte) []byte {
	out := append([]byte(nil), msg...)
	n := rapid.IntRange(0, 3).Draw(t, "nmut")
	for i := 0; i < n; i++ {
		switch rapid.IntRange(0, 5).Draw(t, "mutkind") {
		case 0: // overwrite one byte with an interesting value
			if len(out) > 0 {
				out[rapid.IntRange(0, len(out)-1).Draw(t, "pos")] = pick(t, "val", byte(0), 1, 0x0a, 0x0d, 0x7f, 0x80, 0xff, 0x16, 0x20)
			}
		case 1: // truncate
			if len(out) > 0 {
				out = out[:rapid.IntRange(0, len(out)-1).Draw(t, "cut")]
			}
		case 2: // append
			out = append(out, genBytes(t, "app", 1, 20)...)
		case 3: // flip a bit
			if len(out) > 0 {
				out[rapid.IntRange(0, len(out)-1).Draw(t, "fpos")] ^= 1 << rapid.IntRange(0, 7).Draw(t, "bit")
			}
		case 4: // duplicate a slice in place (keeps earlier length fields, shifts later data)
			if len(out) > 1 {
				a := rapid.IntRange(0, len(out)-1).Draw(t, "dupa")
				b := rapid.IntRange(a, len(out)).Draw(t, "dupb")
				out = append(out[:b:b], append(append([]byte(nil), out[a:b]...), out[b:]...)...)
			}
		case 5: // make the last byte CR / NUL / LF
			if len(out) > 0 {
				out[len(out)-1] = pick(t, "last", byte(0x0d), 0, 0x0a)
			}
		}
	}
	return out
}

// GenSocks5Session draws a whole client byte sequence for the SOCKS5 handler:
// method negotiation, optional user/pass sub-negotiation, request. dst is the
// destination used by syntactically valid requests.
func GenSocks5Session(t *rapid.T, users [][2]string, dstIP [4]byte, dstPort uint16) []byte {
	var out []byte
	methods := genBytes(t, "methods", 0, 4)
	if rapid.Bool().Draw(t, "offerKnown") {
		methods = append(methods, pick(t, "known", byte(0), 2))
	}
	out = append(out, pick(t, "ver", byte(5), 5, 5, 4), byte(len(methods)))
	out = append(out, methods...)
	if rapid.Bool().Draw(t, "sendAuth") {
		u, p := alnum.Draw(t, "u"), alnum.Draw(t, "p")
		if len(users) > 0 && rapid.Bool().Draw(t, "goodUser") {
			kv := users[rapid.IntRange(0, len(users)-1).Draw(t, "ui")]
			u, p = kv[0], kv[1]
			if rapid.IntRange(0, 3).Draw(t, "badPass") == 0 {
				p += "x"
			}
		}
		out = append(out, 1, byte(len(u)))
		out = append(out, u...)
		out = append(out, byte(len(p)))
		out = append(out, p...)
	}
	cmd := pick(t, "cmd", byte(1), 1, 2, 3, 0, 9)
	switch rapid.IntRange(0, 3).Draw(t, "atyp") {
	case 0:
		out = append(out, 5, cmd, 0, 1)
		out = append(out, dstIP[:]...)
	case 1:
		out = append(out, 5, cmd, 0, 3, byte(len("localhost")))
		out = append(out, "localhost"...)
	case 2:
		out = append(out, 5, cmd, 0, 4)
		out = append(out, make([]byte, 15)...)
		out = append(out, 1)
	default:
		out = append(out, 5, cmd, pick(t, "rsv", byte(0), 1), byte(rapid.IntRange(0, 255).Draw(t, "badatyp")))
		out = append(out, genBytes(t, "addr", 0, 20)...)
	}
	out = append(out, byte(dstPort>>8), byte(dstPort))
	return out
}

// GenLines produces a few short text lines with every kind of line ending (lengths around the small constants that
// line-oriented parsers subtract: a request line has a method, a target and a 9-byte protocol suffix).
func GenLines(t *rapid.T) []byte {
	var out []byte
	for i := rapid.IntRange(1, 4).Draw(t, "nlines"); i > 0; i-- {
		n := rapid.IntRange(0, 14).Draw(t, "lineLen")
		line := rapid.SliceOfN(rapid.SampledFrom([]byte("GETPOS /*.:01ax \tHTP/")), n, n).Draw(t, "line")
		if rapid.IntRange(0, 5).Draw(t, "httpSuffix") == 0 {
			line = append(line, " HTTP/1.1"...)
		}
		out = append(out, line...)
		out = append(out, pick(t, "eol", "\r\n", "\r\n", "\n", "\r", "")...)
	}
	return out
}
