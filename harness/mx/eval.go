// Package mx provisions shipped caddy-l4 matchers from JSON, evaluates them
// on prefixes through the public MatcherSet.Match path and provides builders
// for well-formed first messages of every protocol.
package mx

import (
	"encoding/json"
	"errors"
	"fmt"
	"net"
	"sync"

	"github.com/caddyserver/caddy/v2"
	"go.uber.org/zap"

	_ "github.com/mholt/caddy-l4"
	"github.com/mholt/caddy-l4/layer4"

	"verifharness/hx"
)

// Verdict of a matcher on a prefix.
type Verdict int

const (
	No Verdict = iota
	Yes
	NeedMore   // layer4.ErrConsumedAllPrefetchedBytes
	BufferFull // layer4.ErrMatchingBufferFull
	OtherErr   // any other error: matching is aborted, connection closed
	Panicked
)

func (v Verdict) String() string {
	return [...]string{"no", "yes", "need-more", "buffer-full", "error", "PANIC"}[v]
}

var (
	ctxOnce sync.Once
	baseCtx caddy.Context
)

// Ctx returns a process-wide bare caddy context (as the repository's tests use).
func Ctx() caddy.Context {
	ctxOnce.Do(func() {
		baseCtx, _ = caddy.NewContext(caddy.Context{Context: contextBackground()})
	})
	return baseCtx
}

// NewMatcher loads and provisions layer4.matchers.<name> from its JSON value.
func NewMatcher(name string, cfg string) (layer4.ConnMatcher, error) {
	if cfg == "" {
		cfg = "{}"
	}
	v, err := Ctx().LoadModuleByID("layer4.matchers."+name, json.RawMessage(cfg))
	if err != nil {
		return nil, err
	}
	m, ok := v.(layer4.ConnMatcher)
	if !ok {
		return nil, fmt.Errorf("%s is not a ConnMatcher", name)
	}
	return m, nil
}

// MustMatcher is NewMatcher that panics on a configuration error.
func MustMatcher(name, cfg string) layer4.ConnMatcher {
	m, err := NewMatcher(name, cfg)
	if err != nil {
		panic(fmt.Sprintf("provision %s %s: %v", name, cfg, err))
	}
	return m
}

// Addrs for TCP-like and UDP-like connections.
var (
	TCPLocal  net.Addr = &net.TCPAddr{IP: net.IPv4(10, 0, 0, 1), Port: 443}
	TCPRemote net.Addr = &net.TCPAddr{IP: net.IPv4(192, 168, 7, 9), Port: 51234}
	UDPLocal  net.Addr = &net.UDPAddr{IP: net.IPv4(10, 0, 0, 1), Port: 443}
	UDPRemote net.Addr = &net.UDPAddr{IP: net.IPv4(192, 168, 7, 9), Port: 51234}
)

// Result of one evaluation.
type Result struct {
	V        Verdict
	Err      error
	Panic    any
	Reads    int    // reads that reached the underlying conn during Match
	After    []byte // what the connection yields after matching (prefix ++ rest)
	AfterErr error
}

// Eval evaluates matcher m the way routing does (MatcherSet.Match: freeze,
// Match, unfreeze) on a fresh connection whose matching buffer holds prefix
// and whose underlying conn would deliver rest. If readBack is set the
// connection is then read to the end.
func Eval(m layer4.ConnMatcher, prefix, rest []byte, udp bool, readBack bool) (res Result) {
	under := hx.NewScriptConn([][]byte{rest}, hx.EndEOF)
	if udp {
		under.Local, under.Remote = UDPLocal, UDPRemote
	} else {
		under.Local, under.Remote = TCPLocal, TCPRemote
	}
	return EvalOn(m, under, prefix, readBack)
}

// EvalOn is Eval with a caller-supplied underlying connection.
func EvalOn(m layer4.ConnMatcher, under *hx.ScriptConn, prefix []byte, readBack bool) (res Result) {
	cx := layer4.VerifNewConnection(under, prefix, zap.NewNop())
	func() {
		defer func() {
			if r := recover(); r != nil {
				res.V, res.Panic = Panicked, r
			}
		}()
		ok, err := layer4.MatcherSet{m}.Match(cx)
		res.Err = err
		switch {
		case err == nil && ok:
			res.V = Yes
		case err == nil:
			res.V = No
		case errors.Is(err, layer4.ErrConsumedAllPrefetchedBytes):
			res.V = NeedMore
		case errors.Is(err, layer4.ErrMatchingBufferFull):
			res.V = BufferFull
		default:
			res.V = OtherErr
		}
	}()
	res.Reads, _, _ = under.Snapshot()
	if readBack && res.V != Panicked {
		buf := make([]byte, 0, len(prefix)+64)
		tmp := make([]byte, 997)
		for {
			n, err := cx.Read(tmp)
			buf = append(buf, tmp[:n]...)
			if err != nil {
				res.AfterErr = err
				break
			}
			if n == 0 {
				break
			}
		}
		res.After = buf
	}
	return res
}
