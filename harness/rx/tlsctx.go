package rx

import (
	"crypto/ecdsa"
	"crypto/elliptic"
	"crypto/rand"
	"crypto/tls"
	"crypto/x509"
	"crypto/x509/pkix"
	"encoding/json"
	"encoding/pem"
	"math/big"
	"os"
	"sync"
	"time"

	"github.com/caddyserver/caddy/v2"
	_ "github.com/caddyserver/caddy/v2/modules/caddypki"
	_ "github.com/caddyserver/caddy/v2/modules/caddytls"
	_ "github.com/caddyserver/caddy/v2/modules/filestorage"
)

var (
	tlsOnce sync.Once
	tlsCtx  caddy.Context
	tlsErr  error
	// CertPEM / CertPool describe the self-signed certificate loaded into the tls app.
	CertPEM  []byte
	CertPool *x509.CertPool
)

// TLSNames are the DNS names the harness certificate is valid for.
var TLSNames = []string{"example.com", "*.example.com", "localhost", "verif.test"}

func selfSigned() (certPEM, keyPEM []byte, err error) {
	key, err := ecdsa.GenerateKey(elliptic.P256(), rand.Reader)
	if err != nil {
		return nil, nil, err
	}
	tpl := &x509.Certificate{
		SerialNumber:          big.NewInt(20261003),
		Subject:               pkix.Name{CommonName: "verif harness"},
		NotBefore:             time.Now().Add(-time.Hour),
		NotAfter:              time.Now().Add(48 * time.Hour),
		KeyUsage:              x509.KeyUsageDigitalSignature,
		ExtKeyUsage:           []x509.ExtKeyUsage{x509.ExtKeyUsageServerAuth},
		BasicConstraintsValid: true,
		DNSNames:              TLSNames,
	}
	der, err := x509.CreateCertificate(rand.Reader, tpl, tpl, &key.PublicKey, key)
	if err != nil {
		return nil, nil, err
	}
	kb, err := x509.MarshalECPrivateKey(key)
	if err != nil {
		return nil, nil, err
	}
	return pem.EncodeToMemory(&pem.Block{Type: "CERTIFICATE", Bytes: der}),
		pem.EncodeToMemory(&pem.Block{Type: "EC PRIVATE KEY", Bytes: kb}), nil
}

// TLSCtx loads (once per process) a minimal Caddy configuration with the tls
// app holding a self-signed certificate and returns the active context, from
// which route lists containing the tls handler can be provisioned.
func TLSCtx() (caddy.Context, error) {
	tlsOnce.Do(func() {
		var keyPEM []byte
		CertPEM, keyPEM, tlsErr = selfSigned()
		if tlsErr != nil {
			return
		}
		CertPool = x509.NewCertPool()
		CertPool.AppendCertsFromPEM(CertPEM)
		dir, err := os.MkdirTemp("", "verif-caddy-")
		if err != nil {
			tlsErr = err
			return
		}
		cfg := map[string]any{
			"admin":   map[string]any{"disabled": true, "config": map[string]any{"persist": false}},
			"storage": map[string]any{"module": "file_system", "root": dir},
			"logging": map[string]any{"logs": map[string]any{"default": map[string]any{"level": "ERROR", "writer": map[string]any{"output": "discard"}}}},
			"apps": map[string]any{
				// (the internal issuer must not install its root into the trust store of the machine the checks run on)
				"pki": map[string]any{"certificate_authorities": map[string]any{"local": map[string]any{"install_trust": false}}},
				"tls": map[string]any{
					"certificates": map[string]any{
						"load_pem": []map[string]any{{"certificate": string(CertPEM), "key": string(keyPEM), "tags": []string{"verif"}}},
					},
					"automation": map[string]any{"policies": []map[string]any{{"subjects": []string{"never-used.invalid"}, "issuers": []map[string]any{{"module": "internal"}}}}},
				},
			},
		}
		b, _ := json.Marshal(cfg)
		if err := caddy.Load(b, true); err != nil {
			tlsErr = err
			return
		}
		tlsCtx = caddy.ActiveContext()
	})
	return tlsCtx, tlsErr
}

// ClientTLS returns a client config trusting the harness certificate.
func ClientTLS(serverName string, alpn []string) *tls.Config {
	return &tls.Config{ServerName: serverName, NextProtos: alpn, RootCAs: CertPool, MinVersion: tls.VersionTLS12}
}
