package rx

import (
	"context"
	"encoding/json"
	"fmt"
	"sync"
	"time"

	"github.com/caddyserver/caddy/v2"
	"go.uber.org/zap"

	_ "github.com/mholt/caddy-l4"
	"github.com/mholt/caddy-l4/layer4"
)

// R is a route in harness notation; it marshals to the layer4 JSON form.
type R struct {
	Match  []map[string]any `json:"match,omitempty"`
	Handle []map[string]any `json:"handle,omitempty"`
}

// H builds a handler object.
func H(name string, kv ...any) map[string]any {
	m := map[string]any{"handler": name}
	for i := 0; i+1 < len(kv); i += 2 {
		m[kv[i].(string)] = kv[i+1]
	}
	return m
}

// M builds a matcher set with one matcher.
func M(name string, cfg any) map[string]any { return map[string]any{name: cfg} }

var (
	bareOnce sync.Once
	bareCtx  caddy.Context
)

// BareCtx is a context without apps (enough for everything but the tls handler).
func BareCtx() caddy.Context {
	bareOnce.Do(func() {
		bareCtx, _ = caddy.NewContext(caddy.Context{Context: context.Background()})
	})
	return bareCtx
}

// Routes unmarshals and provisions a route list from harness notation.
func Routes(ctx caddy.Context, rs []R) (layer4.RouteList, error) {
	b, err := json.Marshal(rs)
	if err != nil {
		return nil, err
	}
	return RoutesJSON(ctx, b)
}

func RoutesJSON(ctx caddy.Context, b []byte) (layer4.RouteList, error) {
	var rl layer4.RouteList
	if err := json.Unmarshal(b, &rl); err != nil {
		return nil, fmt.Errorf("unmarshal routes: %v (%s)", err, b)
	}
	if err := rl.Provision(ctx); err != nil {
		return nil, fmt.Errorf("provision routes: %v (%s)", err, b)
	}
	return rl, nil
}

// Compile compiles with a recording fallback.
func Compile(rl layer4.RouteList, timeout time.Duration, drainFallback bool) layer4.Handler {
	return rl.Compile(zap.NewNop(), timeout, Fallback{Drain: drainFallback})
}

// Server builds and provisions a layer4.Server from harness routes.
func Server(ctx caddy.Context, rs []R, timeout time.Duration) (*layer4.Server, error) {
	b, err := json.Marshal(map[string]any{"routes": rs, "matching_timeout": timeout.Nanoseconds()})
	if err != nil {
		return nil, err
	}
	s := new(layer4.Server)
	if err := json.Unmarshal(b, s); err != nil {
		return nil, err
	}
	if err := s.Provision(ctx, zap.NewNop()); err != nil {
		return nil, err
	}
	return s, nil
}
