package rx

import (
	"crypto/tls"
	"io"
	"net"
	"testing"
	"time"

	"github.com/mholt/caddy-l4/layer4"
	"go.uber.org/zap"
)

func TestTLSRoute(t *testing.T) {
	ctx, err := TLSCtx()
	if err != nil {
		t.Fatal(err)
	}
	rl, err := Routes(ctx, []R{{Match: []map[string]any{M("tls", map[string]any{})}, Handle: []map[string]any{H("tls"), H("verif_term", "id", "t")}}})
	if err != nil {
		t.Fatal(err)
	}
	h := Compile(rl, time.Second, false)
	c, s := net.Pipe()
	tr := NewTrace()
	go func() {
		cx := layer4.WrapConnection(s, make([]byte, 0, 2048), zap.NewNop())
		Bind(cx, tr)
		if err := h.Handle(cx); err != nil {
			t.Log("handle:", err)
		}
		s.Close()
	}()
	tc := tls.Client(c, ClientTLS("example.com", nil))
	if err := tc.Handshake(); err != nil {
		t.Fatal(err)
	}
	tc.Write([]byte("hello over tls"))
	tc.CloseWrite()
	io.Copy(io.Discard, tc)
	<-tr.Done
	ev := tr.Snapshot()
	if len(ev) != 1 || string(ev[0].Data) != "hello over tls" {
		t.Fatalf("%+v", ev)
	}
}
