// Package rx holds the harness-only Caddy modules (matchers with a computable
// verdict, recording handlers) and helpers to provision and compile route
// lists from JSON exactly as the layer4 app does.
package rx

import (
	"errors"
	"fmt"
	"hash/fnv"
	"io"
	"net"
	"sync"
	"time"

	"github.com/caddyserver/caddy/v2"

	"github.com/mholt/caddy-l4/layer4"
)

func init() {
	caddy.RegisterModule(&Need{})
	caddy.RegisterModule(&Need2{})
	caddy.RegisterModule(&Need3{})
	caddy.RegisterModule(&ErrMatcher{})
	caddy.RegisterModule(&Take{})
	caddy.RegisterModule(&Term{})
	caddy.RegisterModule(&Mark{})
	caddy.RegisterModule(&Slow{})
}

// ---------- trace ----------

type Event struct {
	Kind       string // "take", "term", "mark", "fallback", "match"
	ID         string
	Avail      []byte // bytes received from the client and not yet consumed, at entry
	Data       []byte // bytes this handler read
	Err        string
	Remote     string
	Local      string
	ReplRemote string
	ReplLocal  string
	At         time.Time
	EndAt      time.Time
}

type Trace struct {
	mu       sync.Mutex
	Events   []Event
	Done     chan struct{} // closed by terminal recorders when they finished reading
	doneOnce sync.Once
	// TermLimit bounds how much a terminal recorder reads (0 = until EOF/error).
	TermLimit int
	// TermDeadline, if set, is armed as read deadline by terminal recorders.
	TermDeadline time.Duration
	// ReadBuf, if set, is the buffer size terminal recorders hand to Read on this connection.
	ReadBuf int
}

func NewTrace() *Trace { return &Trace{Done: make(chan struct{})} }

func (t *Trace) add(e Event) int {
	t.mu.Lock()
	defer t.mu.Unlock()
	t.Events = append(t.Events, e)
	return len(t.Events) - 1
}

func (t *Trace) update(i int, f func(*Event)) {
	t.mu.Lock()
	defer t.mu.Unlock()
	f(&t.Events[i])
}

func (t *Trace) Snapshot() []Event {
	t.mu.Lock()
	defer t.mu.Unlock()
	return append([]Event(nil), t.Events...)
}

func (t *Trace) finish() { t.doneOnce.Do(func() { close(t.Done) }) }

const traceVar = "verif_trace"

var registry sync.Map // remote addr string -> *Trace

// Register binds a trace to connections arriving from the given remote
// address (for paths where the harness does not build the Connection itself).
func Register(remote string, t *Trace) { registry.Store(remote, t) }
func Unregister(remote string)         { registry.Delete(remote) }

// Bind attaches a trace to a connection built by the harness.
func Bind(cx *layer4.Connection, t *Trace) { cx.SetVar(traceVar, t) }

func traceOf(cx *layer4.Connection) *Trace {
	if v, ok := cx.GetVar(traceVar).(*Trace); ok && v != nil {
		return v
	}
	if v, ok := registry.Load(cx.Conn.RemoteAddr().String()); ok {
		t := v.(*Trace)
		cx.SetVar(traceVar, t)
		return t
	}
	return nil
}

func replStr(cx *layer4.Connection, key string) string {
	repl, ok := cx.Context.Value(layer4.ReplacerCtxKey).(*caddy.Replacer)
	if !ok {
		return ""
	}
	v, _ := repl.Get(key)
	if v == nil {
		return ""
	}
	return fmt.Sprint(v)
}

func entryEvent(kind, id string, cx *layer4.Connection) Event {
	return Event{
		Kind: kind, ID: id, At: time.Now(),
		Avail:      append([]byte(nil), cx.MatchingBytes()...),
		Remote:     cx.RemoteAddr().String(),
		Local:      cx.LocalAddr().String(),
		ReplRemote: replStr(cx, "l4.conn.remote_addr"),
		ReplLocal:  replStr(cx, "l4.conn.local_addr"),
	}
}

// ---------- matchers ----------

// Need is a matcher whose verdict is a pure function of the first N bytes:
// fewer than N available => "need more"; otherwise yes iff data[Pos]==Val
// (xor Neg). N == 0 gives the constant verdict !Neg without reading.
// With Peek it looks at MatchingBytes() instead of reading.
type Need struct {
	N    int  `json:"n,omitempty"`
	Pos  int  `json:"pos,omitempty"`
	Val  byte `json:"val,omitempty"`
	Neg  bool `json:"neg,omitempty"`
	Peek bool `json:"peek,omitempty"`
	// Early (implies Peek) answers "no" as soon as byte Pos is available and
	// differs from Val, and "yes" only once N bytes are available.
	Early bool `json:"early,omitempty"`
}

func (*Need) CaddyModule() caddy.ModuleInfo {
	return caddy.ModuleInfo{ID: "layer4.matchers.verif_need", New: func() caddy.Module { return new(Need) }}
}

// Verdict is the reference semantics of Need on the available bytes:
// 0 no, 1 yes, 2 need more.
func (m *Need) Verdict(avail []byte) int {
	if m.N == 0 {
		if m.Neg {
			return 0
		}
		return 1
	}
	if m.Early && len(avail) > m.Pos && (avail[m.Pos] == m.Val) == m.Neg {
		return 0
	}
	if len(avail) < m.N {
		return 2
	}
	if (avail[m.Pos] == m.Val) != m.Neg {
		return 1
	}
	return 0
}

func (m *Need) Match(cx *layer4.Connection) (bool, error) {
	traceOf(cx) // bind early on paths where the harness does not own the Connection
	if m.N == 0 {
		return !m.Neg, nil
	}
	var data []byte
	if m.Early {
		data = cx.MatchingBytes()
		if len(data) > m.Pos && (data[m.Pos] == m.Val) == m.Neg {
			return false, nil
		}
	}
	if m.Peek || m.Early {
		data = cx.MatchingBytes()
		if len(data) < m.N {
			if len(data) >= layer4.MaxMatchingBytes {
				return false, layer4.ErrMatchingBufferFull
			}
			return false, layer4.ErrConsumedAllPrefetchedBytes
		}
	} else {
		data = make([]byte, m.N)
		if _, err := io.ReadFull(cx, data); err != nil {
			return false, err
		}
	}
	return (data[m.Pos] == m.Val) != m.Neg, nil
}

// Need2 and Need3 are aliases of Need under other module names, so that one
// matcher set (a JSON object keyed by module name) can hold several of them.
type Need2 struct{ Need }
type Need3 struct{ Need }

func (*Need2) CaddyModule() caddy.ModuleInfo {
	return caddy.ModuleInfo{ID: "layer4.matchers.verif_need2", New: func() caddy.Module { return new(Need2) }}
}
func (*Need3) CaddyModule() caddy.ModuleInfo {
	return caddy.ModuleInfo{ID: "layer4.matchers.verif_need3", New: func() caddy.Module { return new(Need3) }}
}

// ErrMatcher returns an error (not "need more") once N bytes are available.
type ErrMatcher struct {
	N int `json:"n,omitempty"`
	// If First is non-zero the error is returned only for streams whose first byte is First; others get "no".
	First byte `json:"first,omitempty"`
}

var ErrVerifMatcher = errors.New("verif matcher error")

func (*ErrMatcher) CaddyModule() caddy.ModuleInfo {
	return caddy.ModuleInfo{ID: "layer4.matchers.verif_err", New: func() caddy.Module { return new(ErrMatcher) }}
}

func (m *ErrMatcher) Match(cx *layer4.Connection) (bool, error) {
	if m.First != 0 {
		b := make([]byte, 1)
		if _, err := io.ReadFull(cx, b); err != nil {
			return false, err
		}
		if b[0] != m.First {
			return false, nil
		}
	}
	if m.N > 0 {
		if _, err := io.ReadFull(cx, make([]byte, m.N)); err != nil {
			return false, err
		}
	}
	return false, ErrVerifMatcher
}

// ---------- handlers ----------

// Take reads exactly K bytes (fewer only at end of stream), records them and calls next.
type Take struct {
	ID string `json:"id,omitempty"`
	K  int    `json:"k,omitempty"`
	// Wrap: hands a new Connection on to the next handler, as the tls and proxy_protocol handlers do: one that reads
	// through the old one and reports WrapAddr(ID) as its remote address.
	Wrap bool `json:"wrap,omitempty"`
}

// WrapAddr is the remote address that the connection handed on by the wrapping Take handler id reports.
func WrapAddr(id string) net.Addr {
	h := fnv.New32a()
	h.Write([]byte(id))
	v := h.Sum32()
	return &net.TCPAddr{IP: net.IPv4(198, 51, 100, byte(v%250+1)), Port: 1024 + int(v>>8)%60000}
}

type renamedConn struct {
	net.Conn
	remote net.Addr
}

func (c *renamedConn) RemoteAddr() net.Addr { return c.remote }

func (*Take) CaddyModule() caddy.ModuleInfo {
	return caddy.ModuleInfo{ID: "layer4.handlers.verif_take", New: func() caddy.Module { return new(Take) }}
}

func (h *Take) Handle(cx *layer4.Connection, next layer4.Handler) error {
	tr := traceOf(cx)
	ev := entryEvent("take", h.ID, cx)
	buf := make([]byte, h.K)
	n, err := io.ReadFull(cx, buf)
	ev.Data = buf[:n]
	if err != nil {
		ev.Err = err.Error()
	}
	ev.EndAt = time.Now()
	if tr != nil {
		tr.add(ev)
	}
	if h.Wrap {
		cx = cx.Wrap(&renamedConn{Conn: cx, remote: WrapAddr(h.ID)})
	}
	return next.Handle(cx)
}

// Mark records that it ran (and what it sees) and calls next.
type Mark struct {
	ID string `json:"id,omitempty"`
}

func (*Mark) CaddyModule() caddy.ModuleInfo {
	return caddy.ModuleInfo{ID: "layer4.handlers.verif_mark", New: func() caddy.Module { return new(Mark) }}
}

func (h *Mark) Handle(cx *layer4.Connection, next layer4.Handler) error {
	if tr := traceOf(cx); tr != nil {
		tr.add(entryEvent("mark", h.ID, cx))
	}
	return next.Handle(cx)
}

// Term is terminal: it records, reads the connection to its end (or
// TermLimit) and records the bytes; it never calls next.
type Term struct {
	ID string `json:"id,omitempty"`
	// Echo writes the bytes back to the client after the stream ended.
	Echo bool `json:"echo,omitempty"`
	// Buf is the size of the buffer handed to Read (default 1500).
	Buf int `json:"buf,omitempty"`
}

func (*Term) CaddyModule() caddy.ModuleInfo {
	return caddy.ModuleInfo{ID: "layer4.handlers.verif_term", New: func() caddy.Module { return new(Term) }}
}

func (h *Term) Handle(cx *layer4.Connection, _ layer4.Handler) error {
	tr := traceOf(cx)
	ev := entryEvent("term", h.ID, cx)
	readAllBuf(cx, tr, &ev, h.Buf)
	if h.Echo && len(ev.Data) > 0 {
		_, _ = cx.Write(ev.Data)
	}
	if tr != nil {
		tr.add(ev)
		tr.finish()
	}
	return nil
}

// ReadAll drains cx into ev.Data obeying the trace's limits.
func ReadAll(cx *layer4.Connection, tr *Trace, ev *Event) { readAllBuf(cx, tr, ev, 0) }

func readAllBuf(cx *layer4.Connection, tr *Trace, ev *Event, bufSize int) {
	limit, dl := 0, time.Duration(0)
	if tr != nil {
		limit, dl = tr.TermLimit, tr.TermDeadline
		if tr.ReadBuf > 0 {
			bufSize = tr.ReadBuf
		}
	}
	if bufSize <= 0 {
		bufSize = 1500
	}
	if dl > 0 {
		_ = cx.Conn.SetReadDeadline(time.Now().Add(dl))
	}
	tmp := make([]byte, bufSize)
	for {
		want := len(tmp)
		if limit > 0 && limit-len(ev.Data) < want {
			want = limit - len(ev.Data)
		}
		if want == 0 {
			break
		}
		n, err := cx.Read(tmp[:want])
		ev.Data = append(ev.Data, tmp[:n]...)
		if err != nil {
			ev.Err = err.Error()
			break
		}
	}
	ev.EndAt = time.Now()
}

// Slow sleeps, then behaves like Term.
type Slow struct {
	ID    string         `json:"id,omitempty"`
	Sleep caddy.Duration `json:"sleep,omitempty"`
}

func (*Slow) CaddyModule() caddy.ModuleInfo {
	return caddy.ModuleInfo{ID: "layer4.handlers.verif_slow", New: func() caddy.Module { return new(Slow) }}
}

func (h *Slow) Handle(cx *layer4.Connection, _ layer4.Handler) error {
	tr := traceOf(cx)
	ev := entryEvent("slow", h.ID, cx)
	time.Sleep(time.Duration(h.Sleep))
	ReadAll(cx, tr, &ev)
	if tr != nil {
		tr.add(ev)
		tr.finish()
	}
	return nil
}

// Fallback is the `next` handler given to Compile: it records and drains.
type Fallback struct {
	Drain bool
}

func (f Fallback) Handle(cx *layer4.Connection) error {
	tr := traceOf(cx)
	ev := entryEvent("fallback", "", cx)
	if f.Drain {
		ReadAll(cx, tr, &ev)
	}
	if tr != nil {
		tr.add(ev)
		tr.finish()
	}
	return nil
}

var (
	_ layer4.ConnMatcher = (*Need)(nil)
	_ layer4.ConnMatcher = (*ErrMatcher)(nil)
	_ layer4.NextHandler = (*Take)(nil)
	_ layer4.NextHandler = (*Term)(nil)
	_ layer4.NextHandler = (*Mark)(nil)
	_ layer4.NextHandler = (*Slow)(nil)
)
