package c10p

import (
	"context"
	"encoding/json"
	"fmt"
	"net"
	"sync/atomic"
	"testing"

	"github.com/caddyserver/caddy/v2"
	"go.uber.org/zap"
	"pgregory.net/rapid"

	"github.com/mholt/caddy-l4/layer4"
	"github.com/mholt/caddy-l4/modules/l4proxy"

	"verifharness/hx"
)

// (this test lives in a package of its own: it needs the peer-state accessors of the export shim only, not the
// direct construction of upstreams the other C10 tests use, and stays buildable when the latter does not compile)

func TestMain(m *testing.M) { hx.Main(m) }

var policies = []string{"first", "round_robin", "ip_hash", "least_conn", "random", "random_choose"}

type upSpec struct {
	Peers    []l4proxy.VerifPeer
	MaxConns int
	MaxFails int
}

// availableRef is the reference predicate, written from the property text: healthy, below its failure limit and
// below its connection limit (every peer).
func (u upSpec) availableRef() bool {
	for _, p := range u.Peers {
		if p.Unhealthy {
			return false
		}
		if u.MaxFails > 0 && p.Fails >= u.MaxFails {
			return false
		}
		if u.MaxConns > 0 && p.NumConns >= u.MaxConns {
			return false
		}
	}
	return true
}

func genUp(t *rapid.T) upSpec {
	u := upSpec{MaxConns: rapid.IntRange(0, 3).Draw(t, "maxConns")}
	for i := rapid.IntRange(1, 3).Draw(t, "npeers"); i > 0; i-- {
		u.Peers = append(u.Peers, l4proxy.VerifPeer{
			Unhealthy: rapid.IntRange(0, 4).Draw(t, "unhealthy") == 0,
			Fails:     rapid.IntRange(0, 2).Draw(t, "fails"),
			NumConns:  rapid.IntRange(0, 3).Draw(t, "conns"),
		})
	}
	return u
}

func genRemote(t *rapid.T) net.Addr {
	port := rapid.IntRange(1, 65535).Draw(t, "port")
	ip := net.IPv4(10, byte(rapid.IntRange(0, 3).Draw(t, "ipb")), 0, byte(rapid.IntRange(1, 9).Draw(t, "ipd")))
	if rapid.Bool().Draw(t, "udpClient") {
		return &net.UDPAddr{IP: ip, Port: port}
	}
	return &net.TCPAddr{IP: ip, Port: port}
}

func conn(remote net.Addr) *layer4.Connection {
	sc := hx.NewScriptConn(nil, hx.EndEOF)
	sc.Remote = remote
	return layer4.WrapConnection(sc, nil, zap.NewNop())
}

func indexOf(pool l4proxy.UpstreamPool, u *l4proxy.Upstream) int {
	for i, x := range pool {
		if x == u {
			return i
		}
	}
	return -1
}

// The other tests build their pools directly. Here the pool is what the proxy
// handler provisions from a configuration, as Caddy does, with the limits given
// the way a user gives them (max_connections per upstream; max_fails,
// fail_duration and unhealthy_connection_count in the passive health checks,
// any of them left out). The peers' counters are then set to generated values
// and the handler's own selection policy has to pick an upstream that the
// documentation calls available, if and only if there is one.

var provisionedCases atomic.Int64

type provSpec struct {
	Policy         string
	Choose         int
	MaxFails       int  // 0: omitted
	FailDuration   bool // fail_duration given
	UnhealthyConns int  // 0: omitted
	NoHealthChecks bool
	Ups            []upSpec // MaxFails unused here; MaxConns is the upstream's max_connections
}

// the limits as documented: max_fails defaults to 1 once a fail_duration is set; without a fail_duration failures are
// not counted at all; unhealthy_connection_count applies to upstreams that set no max_connections of their own
func (ps provSpec) effective(u upSpec) upSpec {
	e := upSpec{Peers: u.Peers, MaxConns: u.MaxConns}
	if !ps.NoHealthChecks {
		if ps.FailDuration {
			e.MaxFails = max(ps.MaxFails, 1)
		}
		if e.MaxConns == 0 {
			e.MaxConns = ps.UnhealthyConns
		}
	}
	return e
}

func TestProvisionedPool(t *testing.T) {
	rapid.Check(t, func(rt *rapid.T) {
		ps := provSpec{Policy: policies[rapid.IntRange(0, len(policies)-1).Draw(rt, "policy")]}
		if ps.Policy == "random_choose" && rapid.Bool().Draw(rt, "chooseGiven") {
			ps.Choose = rapid.IntRange(2, 6).Draw(rt, "choose")
		}
		ps.NoHealthChecks = rapid.IntRange(0, 4).Draw(rt, "noHealthChecks") == 0
		ps.FailDuration = rapid.IntRange(0, 3).Draw(rt, "failDuration") != 0
		if rapid.Bool().Draw(rt, "maxFailsGiven") {
			ps.MaxFails = rapid.IntRange(1, 3).Draw(rt, "maxFails")
		}
		if rapid.IntRange(0, 2).Draw(rt, "unhealthyConnsGiven") == 0 {
			ps.UnhealthyConns = rapid.IntRange(1, 3).Draw(rt, "unhealthyConns")
		}
		n := rapid.IntRange(1, 6).Draw(rt, "poolSize")
		caseNo := provisionedCases.Add(1)
		var ups []map[string]any
		for i := 0; i < n; i++ {
			u := genUp(rt)
			u.MaxFails = 0
			if !ps.FailDuration || ps.NoHealthChecks {
				for j := range u.Peers {
					u.Peers[j].Fails = 0 // failures are only ever counted with a fail_duration
				}
			}
			ps.Ups = append(ps.Ups, u)
			var dial []string
			for j := range u.Peers {
				// addresses nobody else uses: peers are shared process-wide by address
				dial = append(dial, fmt.Sprintf("10.%d.%d.%d:%d", (caseNo>>8)&255, caseNo&255, i*4+j+1, 1024+int(caseNo>>16)))
			}
			um := map[string]any{"dial": dial}
			if u.MaxConns > 0 {
				um["max_connections"] = u.MaxConns
			}
			ups = append(ups, um)
		}
		sel := map[string]any{"policy": ps.Policy}
		if ps.Choose > 0 {
			sel["choose"] = ps.Choose
		}
		cfg := map[string]any{"upstreams": ups, "load_balancing": map[string]any{"selection": sel}}
		if !ps.NoHealthChecks {
			passive := map[string]any{}
			if ps.FailDuration {
				passive["fail_duration"] = "1h"
			}
			if ps.MaxFails > 0 {
				passive["max_fails"] = ps.MaxFails
			}
			if ps.UnhealthyConns > 0 {
				passive["unhealthy_connection_count"] = ps.UnhealthyConns
			}
			cfg["health_checks"] = map[string]any{"passive": passive}
		}
		b, _ := json.Marshal(cfg)
		ctx, cancel := caddy.NewContext(caddy.Context{Context: context.Background()})
		defer cancel()
		v, err := ctx.LoadModuleByID("layer4.handlers.proxy", b)
		if err != nil {
			rt.Fatalf("provision %s: %v", b, err)
		}
		h := v.(*l4proxy.Handler)
		pool := h.VerifUpstreams()
		var avail []int
		for i, u := range ps.Ups {
			for j, p := range u.Peers {
				pool[i].VerifSetPeer(j, p)
			}
			if ps.effective(u).availableRef() {
				avail = append(avail, i)
			}
		}
		desc := fmt.Sprintf("configuration %s\n  peer states (per upstream) %+v\n  available by the documentation: %v", b, ps.Ups, avail)
		inAvail := map[int]bool{}
		for _, a := range avail {
			inAvail[a] = true
		}
		cx := conn(genRemote(rt))
		for c := 0; c < 8; c++ {
			u := h.LoadBalancing.SelectionPolicy.Select(pool, cx)
			idx := indexOf(pool, u)
			switch {
			case len(avail) == 0 && u != nil:
				hx.Fail(rt, "C10", "provisioned/selected-unavailable/"+ps.Policy, "the handler's %s policy returned upstream %d although none is available\n  %s", ps.Policy, idx, desc)
				return
			case len(avail) > 0 && u == nil:
				hx.Fail(rt, "C10", "provisioned/none-selected/"+ps.Policy, "the handler's %s policy returned none although upstreams %v are available\n  %s", ps.Policy, avail, desc)
				return
			case u != nil && !inAvail[idx]:
				hx.Fail(rt, "C10", "provisioned/selected-unavailable/"+ps.Policy, "the handler's %s policy returned upstream %d, which is not available\n  %s", ps.Policy, idx, desc)
				return
			}
		}
		limited := false
		for _, u := range ps.Ups {
			e := ps.effective(u)
			if e.MaxFails > 0 || e.MaxConns > 0 {
				limited = true
			}
		}
		cl := []string{"C10/provisioned", "C10/provisioned/" + ps.Policy}
		if ps.FailDuration && ps.MaxFails == 0 && !ps.NoHealthChecks {
			cl = append(cl, "C10/provisioned/max-fails-defaulted")
		}
		nontrivial := limited && len(avail) > 0 && len(avail) < n
		hx.Case(hx.Hash("prov", string(b), fmt.Sprint(ps.Ups)), nontrivial, cl...)
		if nontrivial {
			hx.Sample("prov/"+ps.Policy, map[string]any{"config": json.RawMessage(b), "available": avail, "pool": n})
		}
	})
}
