package hx

import (
	"errors"
	"net"
	"strings"
	"syscall"
	"time"
)

// A long campaign opens and closes sockets far faster than the kernel forgets them (TIME_WAIT lasts a minute, the
// ephemeral range has 28 000 ports): bind and connect then fail with EADDRINUSE / EADDRNOTAVAIL although nothing is
// wrong with the code under test. The harness's own sockets are opened through these helpers, which wait for ports
// to come back.

func portsExhausted(err error) bool {
	if err == nil {
		return false
	}
	if errors.Is(err, syscall.EADDRINUSE) || errors.Is(err, syscall.EADDRNOTAVAIL) {
		return true
	}
	s := err.Error()
	return strings.Contains(s, "address already in use") || strings.Contains(s, "cannot assign requested address")
}

const socketPatience = 150 * time.Second

// Listen is net.Listen that waits for a free port when asked for "any port" (address ending in ":0").
func Listen(network, addr string) (net.Listener, error) {
	deadline := time.Now().Add(socketPatience)
	for {
		ln, err := net.Listen(network, addr)
		if err == nil || !strings.HasSuffix(addr, ":0") || !portsExhausted(err) || time.Now().After(deadline) {
			return ln, err
		}
		Class("harness/waited-for-a-free-port", 1)
		time.Sleep(500 * time.Millisecond)
	}
}

// ListenPacket is net.ListenPacket with the same patience.
func ListenPacket(network, addr string) (net.PacketConn, error) {
	deadline := time.Now().Add(socketPatience)
	for {
		pc, err := net.ListenPacket(network, addr)
		if err == nil || !strings.HasSuffix(addr, ":0") || !portsExhausted(err) || time.Now().After(deadline) {
			return pc, err
		}
		Class("harness/waited-for-a-free-port", 1)
		time.Sleep(500 * time.Millisecond)
	}
}

// Dial is net.Dial that waits when no local port is to be had.
func Dial(network, addr string) (net.Conn, error) {
	deadline := time.Now().Add(socketPatience)
	for {
		c, err := net.Dial(network, addr)
		if err == nil || !portsExhausted(err) || time.Now().After(deadline) {
			return c, err
		}
		Class("harness/waited-for-a-free-port", 1)
		time.Sleep(500 * time.Millisecond)
	}
}

// HoldPort binds a TCP socket to addr ("ip:port") without listening on it: connections to the address are refused, and
// no other process can be given the port meanwhile. (A harness that plays "this upstream is down" by closing its
// listener would otherwise hand the port back to the kernel, which may give it to a listener of another test process;
// the code under test would then reach a stranger.) Release with the returned function.
func HoldPort(addr string) (release func(), err error) {
	ta, err := net.ResolveTCPAddr("tcp4", addr)
	if err != nil {
		return nil, err
	}
	fd, err := syscall.Socket(syscall.AF_INET, syscall.SOCK_STREAM|syscall.SOCK_CLOEXEC, 0)
	if err != nil {
		return nil, err
	}
	_ = syscall.SetsockoptInt(fd, syscall.SOL_SOCKET, syscall.SO_REUSEADDR, 1)
	sa := &syscall.SockaddrInet4{Port: ta.Port}
	copy(sa.Addr[:], ta.IP.To4())
	if err := syscall.Bind(fd, sa); err != nil {
		_ = syscall.Close(fd)
		return nil, err
	}
	return func() { _ = syscall.Close(fd) }, nil
}
