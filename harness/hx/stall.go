package hx

import (
	"sync"
	"time"
)

// A check that judges "this happened too late" needs to know that the process
// itself was running: on a busy machine timers fire late and goroutines wait
// for a processor, for the code under test and for the harness alike. The
// stall monitor is a goroutine that sleeps in short steps and records every
// step that overshot; a verdict that depends on punctuality is dropped (and
// counted) when such an overshoot overlaps the interval it was measured in.

type stall struct{ from, to time.Time }

var (
	stallOnce sync.Once
	stallMu   sync.Mutex
	stalls    []stall
)

const stallStep = 2 * time.Millisecond

// StartStallMonitor starts the monitor (idempotent).
func StartStallMonitor() {
	stallOnce.Do(func() {
		go func() {
			for {
				t := time.Now()
				time.Sleep(stallStep)
				now := time.Now()
				if over := now.Sub(t) - stallStep; over > 10*time.Millisecond {
					stallMu.Lock()
					stalls = append(stalls, stall{t, now})
					if len(stalls) > 4096 {
						stalls = stalls[len(stalls)-2048:]
					}
					stallMu.Unlock()
				}
			}
		}()
	})
}

// WorstStall returns the longest overshoot the monitor saw overlapping [from, to].
func WorstStall(from, to time.Time) time.Duration {
	stallMu.Lock()
	defer stallMu.Unlock()
	var worst time.Duration
	for _, s := range stalls {
		if s.to.Before(from) || s.from.After(to) {
			continue
		}
		if d := s.to.Sub(s.from) - stallStep; d > worst {
			worst = d
		}
	}
	return worst
}

// Punctual reports whether the process ran without an overshoot of more than tol between from and now; if not, the
// caller's lateness verdict is not trustworthy and is counted under class instead.
func Punctual(from time.Time, tol time.Duration, class string) bool {
	if w := WorstStall(from, time.Now()); w > tol {
		Class(class, 1)
		return false
	}
	return true
}

// Eventually polls cond every step until it holds or max has passed.
func Eventually(max, step time.Duration, cond func() bool) bool {
	deadline := time.Now().Add(max)
	for {
		if cond() {
			return true
		}
		if time.Now().After(deadline) {
			return false
		}
		time.Sleep(step)
	}
}
