package hx

import (
	"encoding/json"
	"os"
	"path/filepath"
	"sort"
)

// VerifDir is the root of the verification tree.
func VerifDir() string {
	if d := os.Getenv("VERIF_DIR"); d != "" {
		return d
	}
	return "/verif"
}

// LoadReplays reads every /verif/replays/<prop>/*.json as a flat string map
// (non-string values are re-encoded as JSON text).
func LoadReplays(prop string) []map[string]string {
	files, _ := filepath.Glob(filepath.Join(VerifDir(), "replays", prop, "*.json"))
	sort.Strings(files)
	var out []map[string]string
	for _, f := range files {
		b, err := os.ReadFile(f)
		if err != nil {
			continue
		}
		var raw map[string]any
		if json.Unmarshal(b, &raw) != nil {
			continue
		}
		m := map[string]string{"_file": f}
		for k, v := range raw {
			if s, ok := v.(string); ok {
				m[k] = s
			} else {
				jb, _ := json.Marshal(v)
				m[k] = string(jb)
			}
		}
		out = append(out, m)
	}
	return out
}

// Tier returns "quick" or "thorough".
func Tier() string {
	if os.Getenv("VERIF_TIER") == "thorough" {
		return "thorough"
	}
	return "quick"
}
