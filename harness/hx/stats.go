// Package hx holds the building blocks shared by all verification checks:
// case accounting for the evidence files, scripted in-memory connections,
// position-coded streams, finding keys and known-finding lookup.
package hx

import (
	"bufio"
	"encoding/binary"
	"encoding/json"
	"fmt"
	"hash/fnv"
	"os"
	"sort"
	"strings"
	"sync"
	"testing"
)

// stats is process-wide: one check = one process.
var stats = struct {
	sync.Mutex
	evaluations int64
	nontrivial  map[uint64]struct{}
	classes     map[string]int64
	samples     []any
	sampleSeen  map[string]int
	excluded    map[string]int64
	notes       []string
}{
	nontrivial: map[uint64]struct{}{},
	classes:    map[string]int64{},
	sampleSeen: map[string]int{},
	excluded:   map[string]int64{},
}

const maxSamples = 12

// Hash returns a 64-bit FNV hash of the given parts.
func Hash(parts ...any) uint64 {
	h := fnv.New64a()
	for _, p := range parts {
		switch v := p.(type) {
		case []byte:
			_ = binary.Write(h, binary.LittleEndian, uint32(len(v)))
			h.Write(v)
		case string:
			_ = binary.Write(h, binary.LittleEndian, uint32(len(v)))
			h.Write([]byte(v))
		default:
			fmt.Fprintf(h, "%v|", v)
		}
	}
	return h.Sum64()
}

// Case accounts one generated case. key identifies the case for
// distinctness; nontrivial says whether it is non-trivial by the rule of the
// check; classes are labels counted for the generator health report.
func Case(key uint64, nontrivial bool, classes ...string) {
	stats.Lock()
	defer stats.Unlock()
	stats.evaluations++
	if nontrivial {
		stats.nontrivial[key] = struct{}{}
	}
	for _, c := range classes {
		stats.classes[c]++
	}
}

// Class bumps a class counter without counting a case.
func Class(c string, n int64) {
	stats.Lock()
	defer stats.Unlock()
	stats.classes[c] += n
}

// Excluded counts a generated case that was excluded by construction because
// it belongs to a known finding.
func Excluded(key string) {
	stats.Lock()
	defer stats.Unlock()
	stats.excluded[key]++
}

// Sample records an actual case for the evidence file; at most a few per
// group are kept.
func Sample(group string, v any) {
	stats.Lock()
	defer stats.Unlock()
	if stats.sampleSeen[group] >= 2 || len(stats.samples) >= maxSamples {
		return
	}
	stats.sampleSeen[group]++
	stats.samples = append(stats.samples, map[string]any{"group": group, "case": v})
}

// Note adds a free-text line to the evidence (e.g. a skipped sub-check).
func Note(format string, a ...any) {
	stats.Lock()
	defer stats.Unlock()
	if len(stats.notes) < 50 {
		stats.notes = append(stats.notes, fmt.Sprintf(format, a...))
	}
}

// Flush writes the counters to $VERIF_STATS (JSON) and the non-trivial
// hashes to $VERIF_STATS.hashes (little-endian uint64s) so that the driver can
// merge shards without double counting.
func Flush() {
	path := os.Getenv("VERIF_STATS")
	if path == "" {
		return
	}
	stats.Lock()
	defer stats.Unlock()
	out := map[string]any{
		"evaluations":         stats.evaluations,
		"distinct_nontrivial": len(stats.nontrivial),
		"classes":             stats.classes,
		"samples":             stats.samples,
		"excluded":            stats.excluded,
		"notes":               stats.notes,
	}
	b, _ := json.Marshal(out)
	_ = os.WriteFile(path, b, 0o644)
	f, err := os.Create(path + ".hashes")
	if err != nil {
		return
	}
	w := bufio.NewWriter(f)
	keys := make([]uint64, 0, len(stats.nontrivial))
	for k := range stats.nontrivial {
		keys = append(keys, k)
	}
	sort.Slice(keys, func(i, j int) bool { return keys[i] < keys[j] })
	var tmp [8]byte
	for _, k := range keys {
		binary.LittleEndian.PutUint64(tmp[:], k)
		w.Write(tmp[:])
	}
	w.Flush()
	f.Close()
}

// Main is the TestMain body of every check package.
func Main(m *testing.M) {
	loadKnown()
	code := m.Run()
	Flush()
	os.Exit(code)
}

// ---- finding keys and known findings ----

var known = map[string]string{} // key -> description

func loadKnown() {
	path := os.Getenv("VERIF_KNOWN")
	if path == "" {
		path = "/verif/known_findings.txt"
	}
	f, err := os.Open(path)
	if err != nil {
		return
	}
	defer f.Close()
	sc := bufio.NewScanner(f)
	for sc.Scan() {
		line := strings.TrimSpace(sc.Text())
		if !strings.HasPrefix(line, "finding:") {
			continue // "fixed:" lines and comments suppress nothing
		}
		// finding: property=<ID> key=<key> <text>
		fields := strings.Fields(strings.TrimPrefix(line, "finding:"))
		var key string
		for _, f := range fields {
			if strings.HasPrefix(f, "key=") {
				key = strings.TrimPrefix(f, "key=")
			}
		}
		if key != "" {
			known[key] = line
		}
	}
}

// Known reports whether a finding key is listed as a known (unrepaired)
// finding. Checks use it to exclude that class by construction.
func Known(key string) bool {
	_, ok := known[key]
	return ok
}

// TB is the subset of testing.TB / rapid.T used for reporting.
type TB interface {
	Helper()
	Fatalf(format string, args ...any)
	Logf(format string, args ...any)
}

var printedKnown sync.Map

// Fail reports a violation with a finding key. If the key is a listed known
// finding it prints the KNOWN-FINDING line (once) and returns false without
// failing; otherwise it fails the test.
func Fail(t TB, prop, key, format string, args ...any) {
	t.Helper()
	msg := fmt.Sprintf(format, args...)
	if Known(key) {
		if _, dup := printedKnown.LoadOrStore(key, true); !dup {
			fmt.Printf("KNOWN-FINDING: property=%s key=%s %s\n", prop, key, firstLine(msg))
		}
		Excluded(key)
		return
	}
	if _, dup := printedKnown.LoadOrStore("V/"+key, true); !dup {
		fmt.Printf("VERIF-FINDING property=%s key=%s %s\n", prop, key, firstLine(msg))
	}
	t.Fatalf("[%s key=%s] %s", prop, key, msg)
}

func firstLine(s string) string {
	if i := strings.IndexByte(s, '\n'); i >= 0 {
		s = s[:i]
	}
	if len(s) > 300 {
		s = s[:300] + "..."
	}
	return s
}
