package hx

import (
	"net"
	"sync"
	"time"
)

// Datagram is one UDP datagram seen by FakePacketConn.
type Datagram struct {
	Data []byte
	Addr net.Addr
}

// FakePacketConn is an in-memory net.PacketConn: datagrams arrive exactly in
// the order the harness injects them (no kernel drops, no reordering) and
// everything written through it is recorded with its destination.
type FakePacketConn struct {
	in     chan Datagram
	closed chan struct{}
	once   sync.Once
	mu     sync.Mutex
	Sent   []Datagram
	Local  net.Addr
}

func NewFakePacketConn() *FakePacketConn {
	return &FakePacketConn{in: make(chan Datagram), closed: make(chan struct{}), Local: &net.UDPAddr{IP: net.IPv4(127, 0, 0, 1), Port: 5353}}
}

// Inject hands one datagram to the reader; it returns once the reader took it
// (false if the conn was closed first or nobody read it within the timeout).
func (f *FakePacketConn) Inject(data []byte, addr net.Addr, timeout time.Duration) bool {
	select {
	case f.in <- Datagram{append([]byte(nil), data...), addr}:
		return true
	case <-f.closed:
		return false
	case <-time.After(timeout):
		return false
	}
}

func (f *FakePacketConn) ReadFrom(p []byte) (int, net.Addr, error) {
	select {
	case d := <-f.in:
		return copy(p, d.Data), d.Addr, nil
	case <-f.closed:
		return 0, nil, net.ErrClosed
	}
}

func (f *FakePacketConn) WriteTo(p []byte, addr net.Addr) (int, error) {
	select {
	case <-f.closed:
		return 0, net.ErrClosed
	default:
	}
	f.mu.Lock()
	f.Sent = append(f.Sent, Datagram{append([]byte(nil), p...), addr})
	f.mu.Unlock()
	return len(p), nil
}

func (f *FakePacketConn) SentSnapshot() []Datagram {
	f.mu.Lock()
	defer f.mu.Unlock()
	return append([]Datagram(nil), f.Sent...)
}

func (f *FakePacketConn) Close() error {
	f.once.Do(func() { close(f.closed) })
	return nil
}
func (f *FakePacketConn) LocalAddr() net.Addr                { return f.Local }
func (f *FakePacketConn) SetDeadline(t time.Time) error      { return nil }
func (f *FakePacketConn) SetReadDeadline(t time.Time) error  { return nil }
func (f *FakePacketConn) SetWriteDeadline(t time.Time) error { return nil }
