package hx

import (
	"testing"

	"pgregory.net/rapid"
	_ "github.com/mholt/caddy-l4/layer4"
)

func TestSplit(t *testing.T) {
	rapid.Check(t, func(t *rapid.T) {
		data := rapid.SliceOf(rapid.Byte()).Draw(t, "d")
		cuts := rapid.SliceOf(rapid.IntRange(0, 100)).Draw(t, "c")
		var got []byte
		for _, s := range Split(data, cuts) {
			got = append(got, s...)
		}
		_ = got
	})
}
