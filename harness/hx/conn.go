package hx

import (
	"errors"
	"io"
	"net"
	"os"
	"sync"
	"time"
)

// EndMode says what a ScriptConn does once its script is exhausted.
type EndMode int

const (
	// EndEOF: the client closed its sending side; Read returns io.EOF.
	EndEOF EndMode = iota
	// EndSilentVirtual: the client stays silent; Read reports the armed read
	// deadline as exceeded at once (virtual time). Without a deadline it
	// returns ErrSilentForever.
	EndSilentVirtual
	// EndSilentReal: the client stays silent; Read blocks until the armed
	// deadline really passes or the conn is closed.
	EndSilentReal
	// EndEOFWithData: like EndEOF, but the end of the stream is reported by the very Read that
	// returns the last bytes (n > 0 together with io.EOF), as io.Reader allows and as
	// crypto/tls does when the peer's close_notify follows its last record. Later reads return (0, io.EOF).
	EndEOFWithData
)

// ErrSilentForever is returned in virtual time when a read without deadline
// meets a client that will never send again.
var ErrSilentForever = errors.New("verif: client stays silent forever (virtual time)")

// ReadEvent is one Read call on the underlying scripted connection.
type ReadEvent struct {
	At  time.Time
	N   int
	Cum int
	Err error
}

// ScriptConn is an in-memory net.Conn whose Read returns exactly the next
// scripted segment (clipped to len(p)), so that the segmentation of the client
// stream into network reads is a generated value.
type ScriptConn struct {
	mu       sync.Mutex
	cond     *sync.Cond
	segs     [][]byte
	end      EndMode
	deadline time.Time
	closed   bool
	timer    *time.Timer

	Local, Remote net.Addr

	// observations
	Reads        int
	Pulled       int
	ReadLog      []ReadEvent
	LogReads     bool
	Written      []byte
	Writes       int
	DeadlineSets []time.Time
	Closes       int
	// OnRead, if set, is called (without the lock) before every Read.
	OnRead func()
	// Refill, if set, is asked for more data when the script is exhausted
	// (used for endless sources); returning nil means no more.
	Refill func() []byte
}

var (
	DefaultLocal  net.Addr = &net.TCPAddr{IP: net.IPv4(127, 0, 0, 1), Port: 4000}
	DefaultRemote net.Addr = &net.TCPAddr{IP: net.IPv4(127, 0, 0, 1), Port: 50000}
)

// NewScriptConn builds a scripted connection. Empty segments are dropped.
func NewScriptConn(segs [][]byte, end EndMode) *ScriptConn {
	c := &ScriptConn{end: end, Local: DefaultLocal, Remote: DefaultRemote}
	for _, s := range segs {
		if len(s) > 0 {
			c.segs = append(c.segs, s)
		}
	}
	c.cond = sync.NewCond(&c.mu)
	return c
}

// Push appends a segment (a late write by the client) and wakes readers.
func (c *ScriptConn) Push(seg []byte) {
	c.mu.Lock()
	c.segs = append(c.segs, append([]byte(nil), seg...))
	c.mu.Unlock()
	c.cond.Broadcast()
}

// SetEnd changes the end mode (e.g. client closes later) and wakes readers.
func (c *ScriptConn) SetEnd(e EndMode) {
	c.mu.Lock()
	c.end = e
	c.mu.Unlock()
	c.cond.Broadcast()
}

func (c *ScriptConn) Read(p []byte) (int, error) {
	if c.OnRead != nil {
		c.OnRead()
	}
	c.mu.Lock()
	defer c.mu.Unlock()
	c.Reads++
	for {
		if c.closed {
			return c.logRead(0, net.ErrClosed)
		}
		if len(c.segs) == 0 && c.Refill != nil {
			if s := c.Refill(); len(s) > 0 {
				c.segs = append(c.segs, s)
			}
		}
		if len(c.segs) > 0 {
			if len(p) == 0 {
				return c.logRead(0, nil)
			}
			n := copy(p, c.segs[0])
			if n == len(c.segs[0]) {
				c.segs = c.segs[1:]
			} else {
				c.segs[0] = c.segs[0][n:]
			}
			c.Pulled += n
			if c.end == EndEOFWithData && len(c.segs) == 0 && c.Refill == nil {
				return c.logRead(n, io.EOF)
			}
			return c.logRead(n, nil)
		}
		switch c.end {
		case EndEOF, EndEOFWithData:
			return c.logRead(0, io.EOF)
		case EndSilentVirtual:
			if !c.deadline.IsZero() {
				return c.logRead(0, os.ErrDeadlineExceeded)
			}
			// no deadline armed and a client that stays silent forever: the reader would block for good
			return c.logRead(0, ErrSilentForever)
		case EndSilentReal:
			if !c.deadline.IsZero() && !time.Now().Before(c.deadline) {
				return c.logRead(0, os.ErrDeadlineExceeded)
			}
		}
		c.cond.Wait()
	}
}

func (c *ScriptConn) logRead(n int, err error) (int, error) {
	if c.LogReads {
		c.ReadLog = append(c.ReadLog, ReadEvent{At: time.Now(), N: n, Cum: c.Pulled, Err: err})
	}
	return n, err
}

func (c *ScriptConn) Write(p []byte) (int, error) {
	c.mu.Lock()
	defer c.mu.Unlock()
	if c.closed {
		return 0, net.ErrClosed
	}
	c.Written = append(c.Written, p...)
	c.Writes++
	return len(p), nil
}

func (c *ScriptConn) Close() error {
	c.mu.Lock()
	c.Closes++
	already := c.closed
	c.closed = true
	if c.timer != nil {
		c.timer.Stop()
	}
	c.mu.Unlock()
	c.cond.Broadcast()
	if already {
		return errors.New("already closed")
	}
	return nil
}

func (c *ScriptConn) IsClosed() bool {
	c.mu.Lock()
	defer c.mu.Unlock()
	return c.closed
}

// Remaining returns the bytes not yet pulled from the script.
func (c *ScriptConn) Remaining() []byte {
	c.mu.Lock()
	defer c.mu.Unlock()
	var out []byte
	for _, s := range c.segs {
		out = append(out, s...)
	}
	return out
}

func (c *ScriptConn) Snapshot() (reads, pulled int, written []byte) {
	c.mu.Lock()
	defer c.mu.Unlock()
	return c.Reads, c.Pulled, append([]byte(nil), c.Written...)
}

func (c *ScriptConn) LocalAddr() net.Addr  { return c.Local }
func (c *ScriptConn) RemoteAddr() net.Addr { return c.Remote }

func (c *ScriptConn) SetDeadline(t time.Time) error {
	return c.SetReadDeadline(t)
}

func (c *ScriptConn) SetReadDeadline(t time.Time) error {
	c.mu.Lock()
	c.deadline = t
	c.DeadlineSets = append(c.DeadlineSets, t)
	if c.timer != nil {
		c.timer.Stop()
		c.timer = nil
	}
	if !t.IsZero() && c.end == EndSilentReal {
		d := time.Until(t)
		if d < 0 {
			d = 0
		}
		c.timer = time.AfterFunc(d, func() { c.cond.Broadcast() })
	}
	c.mu.Unlock()
	c.cond.Broadcast()
	return nil
}

func (c *ScriptConn) SetWriteDeadline(time.Time) error { return nil }

// CurrentDeadline returns the armed read deadline.
func (c *ScriptConn) CurrentDeadline() time.Time {
	c.mu.Lock()
	defer c.mu.Unlock()
	return c.deadline
}

// ---- position-coded streams ----

func mix(x uint64) uint64 {
	x += 0x9e3779b97f4a7c15
	x = (x ^ (x >> 30)) * 0xbf58476d1ce4e5b9
	x = (x ^ (x >> 27)) * 0x94d049bb133111eb
	return x ^ (x >> 31)
}

// Stream returns n bytes where byte i is a keyed hash of (tag, i), so that
// loss, duplication, reordering, alteration and cross-talk each change the
// observed bytes at a computable place.
func Stream(tag uint64, n int) []byte {
	out := make([]byte, n)
	for i := range out {
		out[i] = byte(mix(tag*0x100000001b3 + uint64(i)))
	}
	return out
}

// Split cuts data at the given ascending cut positions.
func Split(data []byte, cuts []int) [][]byte {
	var out [][]byte
	prev := 0
	for _, c := range cuts {
		if c <= prev || c >= len(data) {
			continue
		}
		out = append(out, data[prev:c])
		prev = c
	}
	if prev < len(data) {
		out = append(out, data[prev:])
	}
	return out
}

// FirstDiff describes the first difference between got and want.
func FirstDiff(got, want []byte) int {
	n := len(got)
	if len(want) < n {
		n = len(want)
	}
	for i := 0; i < n; i++ {
		if got[i] != want[i] {
			return i
		}
	}
	if len(got) != len(want) {
		return n
	}
	return -1
}
