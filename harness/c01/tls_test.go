package c01

import (
	"bytes"
	"crypto/tls"
	"fmt"
	"io"
	"net"
	"strings"
	"testing"
	"time"

	"go.uber.org/zap"
	"pgregory.net/rapid"

	"github.com/mholt/caddy-l4/layer4"

	"verifharness/hx"
	"verifharness/rx"
)

// chopConn re-segments everything the TLS client writes (handshake flights and
// application records alike) into generated piece sizes; over net.Pipe every
// piece arrives as a separate read on the server side.
type chopConn struct {
	net.Conn
	sizes []int
	i     int
	// hold: writes are collected and go out as one piece on flush (a client that writes its last record and
	// closes at once: record and close_notify reach the server in the same read)
	hold bool
	held []byte
}

func (c *chopConn) flush() error {
	c.hold = false
	// crypto/tls sets the write deadline to "now" once it has sent its close_notify
	_ = c.Conn.SetWriteDeadline(time.Now().Add(15 * time.Second))
	_, err := c.Conn.Write(c.held)
	c.held = nil
	return err
}

func (c *chopConn) Write(p []byte) (int, error) {
	if c.hold {
		c.held = append(c.held, p...)
		return len(p), nil
	}
	total := 0
	for len(p) > 0 {
		n := len(p)
		if len(c.sizes) > 0 {
			n = min(n, c.sizes[c.i%len(c.sizes)])
			c.i++
		}
		m, err := c.Conn.Write(p[:n])
		total += m
		if err != nil {
			return total, err
		}
		p = p[n:]
	}
	return total, nil
}

type tlsCase struct {
	Plain   []byte
	Sizes   []int // wire piece sizes (cyclic); empty = unsegmented
	AppCuts []int // how the client splits the plaintext into Write calls
	SNI     string
	ALPN    []string
	Plan    *plan
	// TLS12: the client speaks TLS 1.2; CloseWithLast: its last record and its close_notify leave in one piece
	TLS12         bool
	CloseWithLast bool
}

func genTLSCase(t *rapid.T) tlsCase {
	tc := tlsCase{SNI: pickStr(t, "sni", "example.com", "a.example.com", "verif.test", "localhost")}
	if rapid.Bool().Draw(t, "alpn") {
		tc.ALPN = []string{"h2", "http/1.1"}[:rapid.IntRange(1, 2).Draw(t, "nalpn")]
	}
	tag := rapid.Uint64().Draw(t, "tag")
	plain := hx.Stream(tag, genPayloadLen(t))
	for i, b := range plain {
		if b == 0xFF {
			plain[i] = 0
		}
	}
	tc.Plain = plain
	switch rapid.IntRange(0, 3).Draw(t, "wireSeg") {
	case 0:
	case 1:
		tc.Sizes = []int{1, 1, 1, 1, 1, 1, 1, 4096} // trickle through the record header
	default:
		tc.Sizes = rapid.SliceOfN(rapid.IntRange(1, 3000), 1, 6).Draw(t, "sizes")
	}
	tc.AppCuts = genCuts(t, len(plain))
	tc.TLS12 = rapid.Bool().Draw(t, "tls12")
	tc.CloseWithLast = rapid.Bool().Draw(t, "closeWithLastRecord")
	g := &gen{t: t, s: plain, tees: map[string]int{}, p: &plan{Expect: map[string][]byte{}, Classes: map[string]bool{}}}
	sub, pos := g.list(0, 2, false)
	match := map[string]any{}
	if rapid.Bool().Draw(t, "sniMatcher") {
		match["sni"] = []string{tc.SNI}
	}
	g.p.Routes = []rx.R{{Match: []map[string]any{rx.M("tls", match)},
		Handle: []map[string]any{rx.H("tls"), rx.H("subroute", "routes", sub, "matching_timeout", "2s")}}}
	g.p.Classes["tls"] = true
	g.p.Classes["matcher-inspected-bytes"] = true
	g.p.Desc = append([]string{"tls-matcher", "tls-handler", "subroute["}, append(g.p.Desc, "]")...)
	if !g.ended {
		g.p.Expect["FALLBACK"] = plain[pos:]
		g.p.Order = append(g.p.Order, "FALLBACK")
		g.p.Classes["fallback"] = true
	}
	for id, at := range g.tees {
		g.p.Expect[id] = plain[at:]
	}
	tc.Plan = g.p
	return tc
}

func pickStr(t *rapid.T, label string, xs ...string) string {
	return xs[rapid.IntRange(0, len(xs)-1).Draw(t, label)]
}

func runTLSCase(t hx.TB, tc tlsCase) {
	ctx, err := rx.TLSCtx()
	if err != nil {
		t.Fatalf("tls ctx: %v", err)
	}
	rl, err := rx.Routes(ctx, tc.Plan.Routes)
	if err != nil {
		t.Fatalf("provision: %v", err)
	}
	h := rx.Compile(rl, 5*time.Second, true)
	cli, srv := net.Pipe()
	tr := rx.NewTrace()
	done := make(chan error, 1)
	go func() {
		defer func() {
			if r := recover(); r != nil {
				done <- fmt.Errorf("panic: %v", r)
			}
		}()
		cx := layer4.WrapConnection(srv, make([]byte, 0, layer4.VerifPrefetchChunkSize), zap.NewNop())
		rx.Bind(cx, tr)
		err := h.Handle(cx)
		_ = srv.Close()
		done <- err
	}()
	_ = cli.SetDeadline(time.Now().Add(20 * time.Second))
	ccfg := rx.ClientTLS(tc.SNI, tc.ALPN)
	if tc.TLS12 {
		ccfg.MaxVersion = tls.VersionTLS12
	}
	chop := &chopConn{Conn: cli, sizes: tc.Sizes}
	conn := tls.Client(chop, ccfg)
	var echoed bytes.Buffer
	readerDone := make(chan struct{})
	cerr := make(chan error, 1)
	go func() {
		if err := conn.Handshake(); err != nil {
			cerr <- fmt.Errorf("client handshake: %v", err)
			close(readerDone)
			return
		}
		go func() {
			_, _ = io.Copy(&echoed, conn)
			close(readerDone)
		}()
		segs := hx.Split(tc.Plain, tc.AppCuts)
		for i, seg := range segs {
			if tc.CloseWithLast && i == len(segs)-1 {
				chop.hold = true
			}
			if _, err := conn.Write(seg); err != nil {
				cerr <- fmt.Errorf("client write: %v", err)
				return
			}
		}
		err := conn.CloseWrite()
		if chop.hold {
			if ferr := chop.flush(); err == nil {
				err = ferr
			}
		}
		cerr <- err
	}()
	var herr error
	select {
	case herr = <-done:
	case <-time.After(25 * time.Second):
		_ = cli.Close()
		hx.Fail(t, "C01", "hang/tls", "TLS case did not finish within 25 s\n%s", describeTLS(tc, tr.Snapshot()))
		return
	}
	if e := <-cerr; e != nil {
		hx.Fail(t, "C01", "tls-client", "%v (server: %v)\n%s", e, herr, describeTLS(tc, tr.Snapshot()))
		return
	}
	<-readerDone
	_ = cli.Close()
	cd := caseData{Stream: tc.Plain, Cuts: tc.AppCuts, Plan: tc.Plan}
	judge(t, cd, tr, herr, echoed.Bytes(), "tls", func(evs []rx.Event) string { return describeTLS(tc, evs) })
}

func describeTLS(tc tlsCase, evs []rx.Event) string {
	var sb strings.Builder
	fmt.Fprintf(&sb, "  plaintext: %d bytes, client writes cut at %v, wire pieces %v, sni=%s alpn=%v tls1.2=%v last record and close_notify in one piece=%v\n  routes: %s\n  trace:", len(tc.Plain), tc.AppCuts, tc.Sizes, tc.SNI, tc.ALPN, tc.TLS12, tc.CloseWithLast, clipS(planJSON(tc.Plan), 1500))
	for _, e := range evs {
		fmt.Fprintf(&sb, " %s/%s(read %d)", e.Kind, e.ID, len(e.Data))
	}
	return sb.String()
}

func TestStreamIntegrityBehindTLS(t *testing.T) {
	rapid.Check(t, func(rt *rapid.T) {
		runTLSCase(rt, genTLSCase(rt))
	})
}
