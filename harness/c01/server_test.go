package c01

import (
	"bytes"
	"fmt"
	"io"
	"net"
	"testing"
	"time"

	"pgregory.net/rapid"

	"verifharness/hx"
	"verifharness/rx"
)

// The same plans through the real Server.handle (pooled buffers, real sockets,
// connection closed by the server) over loopback TCP. The plan is nested in a
// match-all route so that a recording handler stands where the server's
// closing fallback would be.
func TestStreamIntegrityServerTCP(t *testing.T) {
	ln, err := hx.Listen("tcp", "127.0.0.1:0")
	if err != nil {
		t.Fatal(err)
	}
	defer ln.Close()
	rapid.Check(t, func(rt *rapid.T) {
		cd := genCase(rt)
		// the always-true harness matcher binds the trace to the connection before any handler rewrites its addresses
		wrapped := []rx.R{{Match: []map[string]any{rx.M("verif_need", &rx.Need{N: 0})},
			Handle: []map[string]any{rx.H("subroute", "routes", cd.Plan.Routes, "matching_timeout", "5s")}}}
		if exp, ok := cd.Plan.Expect["FALLBACK"]; ok {
			delete(cd.Plan.Expect, "FALLBACK")
			cd.Plan.Expect["FINAL"] = exp
			cd.Plan.Order[len(cd.Plan.Order)-1] = "FINAL"
			wrapped[0].Handle = append(wrapped[0].Handle, rx.H("verif_term", "id", "FINAL"))
		}
		srv, err := rx.Server(rx.BareCtx(), wrapped, 5*time.Second)
		if err != nil {
			rt.Fatalf("provision: %v", err)
		}
		tr := rx.NewTrace()
		done := make(chan struct{})
		go func() {
			defer close(done)
			c, err := ln.Accept()
			if err != nil {
				return
			}
			rx.Register(c.RemoteAddr().String(), tr)
			defer rx.Unregister(c.RemoteAddr().String())
			srv.VerifHandle(c)
		}()
		c, err := hx.Dial("tcp", ln.Addr().String())
		if err != nil {
			rt.Fatalf("dial: %v", err)
		}
		defer c.Close()
		_ = c.SetDeadline(time.Now().Add(20 * time.Second))
		var echoed bytes.Buffer
		rd := make(chan struct{})
		go func() { _, _ = io.Copy(&echoed, c); close(rd) }()
		for i, seg := range hx.Split(cd.Stream, cd.Cuts) {
			if i > 0 && i < 12 {
				time.Sleep(150 * time.Microsecond) // give the server a chance to see the segments separately
			}
			if _, err := c.Write(seg); err != nil {
				break // the server may legitimately have finished (e.g. terminal handler read everything it wanted)
			}
		}
		_ = c.(*net.TCPConn).CloseWrite()
		select {
		case <-done:
		case <-time.After(20 * time.Second):
			hx.Fail(rt, "C01", "hang/server", "Server.handle did not finish within 20 s\n%s", describe(cd, tr.Snapshot()))
			return
		}
		<-rd
		judge(rt, cd, tr, nil, echoed.Bytes(), "server-tcp", func(evs []rx.Event) string {
			return "  (through Server.handle over loopback TCP)\n" + describe(cd, evs)
		})
	})
}

// ---- replay tier: the minimised cases of every defect found, bypassing rapid ----

func TestReplay(t *testing.T) {
	n := 0
	// (1) proxy_protocol handler with more than 4096 bytes prefetched: the wrapped connection replayed the tail of
	//     the parent's buffer ahead of the data already read through it (fixed da224ae)
	{
		hdr := []byte("PROXY TCP4 10.1.2.3 10.9.8.7 1234 443\r\n")
		payload := hx.Stream(7, 8232-len(hdr))
		s := append(append([]byte(nil), hdr...), payload...)
		p := &plan{Expect: map[string][]byte{"FALLBACK": payload}, Order: []string{"FALLBACK"}, Classes: map[string]bool{"proxy_protocol": true, "matcher-inspected-bytes": true}, Desc: []string{"replay-wrap-partial-drain"}}
		p.Routes = []rx.R{{Match: []map[string]any{rx.M("regexp", map[string]any{"pattern": "(?s).", "count": 8192})}, Handle: []map[string]any{rx.H("proxy_protocol")}}}
		for _, cuts := range [][]int{nil, {1}, {2048, 4096, 6144, 8192}} {
			runCase(t, caseData{Stream: s, Cuts: cuts, Plan: p}, "replay")
			n++
		}
	}
	// (2) tee behind any matcher duplicated the prefetched bytes on both branches (fixed 66eb8ce)
	for _, size := range []int{1, 5, 2048, 5000} {
		s := hx.Stream(9, size)
		p := &plan{Expect: map[string][]byte{"FALLBACK": s, "B1": s}, Order: []string{"FALLBACK"}, Classes: map[string]bool{"tee": true, "matcher-inspected-bytes": true}, Desc: []string{"replay-tee-dup"}}
		p.Routes = []rx.R{{Match: []map[string]any{rx.M("regexp", map[string]any{"pattern": "(?s).", "count": 1})},
			Handle: []map[string]any{rx.H("tee", "branch", []map[string]any{rx.H("verif_term", "id", "B1")})}}}
		runCase(t, caseData{Stream: s, Plan: p}, "replay")
		n++
	}
	// (3) a handler that consumed part of the prefetched bytes, then another matching round
	{
		s := hx.Stream(11, 300)
		p := &plan{Expect: map[string][]byte{"K1": s[:4], "T2": s[4:]}, Order: []string{"K1", "T2"}, Classes: map[string]bool{"take": true, "subroute": true, "matcher-inspected-bytes": true}, Desc: []string{"replay-partial-consume-then-match"}}
		p.Routes = []rx.R{{Match: []map[string]any{rx.M("verif_need", &rx.Need{N: 100, Pos: 3, Val: s[3]})},
			Handle: []map[string]any{rx.H("verif_take", "id", "K1", "k", 4), rx.H("subroute", "routes", []rx.R{
				{Match: []map[string]any{rx.M("verif_need", &rx.Need{N: 50, Pos: 0, Val: s[4]})}, Handle: []map[string]any{rx.H("verif_term", "id", "T2")}}}, "matching_timeout", "1s")}}}
		runCase(t, caseData{Stream: s, Cuts: []int{10, 150}, Plan: p}, "replay")
		n++
	}
	hx.Class("C01/replay-cases", int64(n))
	_ = fmt.Sprint
}
