// C01 — match-and-rewind: handlers read the client's stream exactly once, in order.
package c01

import (
	"bytes"
	"encoding/json"
	"fmt"
	"net/netip"
	"os"
	"strings"
	"testing"
	"time"

	"go.uber.org/zap"
	"pgregory.net/rapid"

	"github.com/mholt/caddy-l4/layer4"

	"verifharness/hx"
	"verifharness/mx"
	"verifharness/rx"
)

func TestMain(m *testing.M) { hx.Main(m) }

// ---------- plan: a deterministic route list with its expected observations ----------

type plan struct {
	Routes []rx.R
	// expectations, filled while the plan is generated
	Expect  map[string][]byte // handler id -> bytes it must read
	Order   []string          // ids of main-chain recorders in the order they must run
	Echo    []byte            // bytes the client must get back (nil: no echo handler)
	HasEcho bool
	Classes map[string]bool
	Desc    []string
}

type gen struct {
	t      *rapid.T
	s      []byte // the raw client stream (PROXY header, if any, then payload)
	hdrLen int
	p      *plan
	nid    int
	tees   map[string]int // tee branch id -> stream offset at the tee point
	// bufStart is the stream offset at which the matching buffer of the current Connection starts
	bufStart int
	ended    bool
}

func (g *gen) id(prefix string) string {
	g.nid++
	return fmt.Sprintf("%s%d", prefix, g.nid)
}

// matcher that says yes (or, for a decoy, no) after inspecting `depth` bytes at offset pos
func (g *gen) matcher(pos int, decoy bool, first bool) []map[string]any {
	maxDepth := g.room(pos, 3000)
	if first {
		maxDepth = g.room(pos, layer4.MaxMatchingBytes)
	}
	if maxDepth == 0 {
		if decoy {
			return []map[string]any{rx.M("verif_need", &rx.Need{N: 0, Neg: true})}
		}
		return nil // no matcher: matches all
	}
	depth := 1
	switch rapid.IntRange(0, 5).Draw(g.t, "depthKind") {
	case 0:
		depth = rapid.IntRange(1, min(maxDepth, 16)).Draw(g.t, "depthSmall")
	case 1:
		depth = maxDepth
	case 2:
		depth = max(1, min(maxDepth, pickInt(g.t, "depthEdge", 2047, 2048, 2049, 4095, 4096, 4097, 8191, 8192)))
	default:
		depth = rapid.IntRange(1, maxDepth).Draw(g.t, "depth")
	}
	if depth > 2048 {
		g.p.Classes["matcher-deeper-than-one-chunk"] = true
	}
	at := rapid.IntRange(0, depth-1).Draw(g.t, "at")
	val := g.s[pos+at]
	if decoy {
		val ^= 0xFF
	}
	g.p.Classes["matcher-inspected-bytes"] = true
	switch k := rapid.IntRange(0, 3).Draw(g.t, "matcherKind"); {
	case k == 0 && !decoy:
		g.p.Desc = append(g.p.Desc, fmt.Sprintf("regexp(count=%d)", depth))
		return []map[string]any{rx.M("regexp", map[string]any{"pattern": "(?s).", "count": depth})}
	case k == 1:
		g.p.Desc = append(g.p.Desc, fmt.Sprintf("peek(%d)", depth))
		return []map[string]any{rx.M("verif_need", &rx.Need{N: depth, Pos: at, Val: val, Peek: true})}
	default:
		g.p.Desc = append(g.p.Desc, fmt.Sprintf("need(%d)", depth))
		m := []map[string]any{rx.M("verif_need", &rx.Need{N: depth, Pos: at, Val: val})}
		if !decoy && rapid.IntRange(0, 3).Draw(g.t, "twoSets") == 0 {
			// an earlier OR'ed set that reads and says no
			d2 := rapid.IntRange(1, depth).Draw(g.t, "depth2")
			m = append([]map[string]any{rx.M("verif_need", &rx.Need{N: d2, Pos: 0, Val: g.s[pos] ^ 0x55})}, m...)
		}
		return m
	}
}

// room bounds how deep a matcher may look at stream offset pos: not past the
// end of the stream (it would stay undecided at EOF) and not past the matching
// buffer limit, which also counts bytes of the current Connection's buffer that
// handlers have already consumed (matching then legitimately ends with
// "matching buffer is full", which is C05's subject).
func (g *gen) room(pos, want int) int {
	return max(0, min(want, len(g.s)-pos, layer4.MaxMatchingBytes-(pos-g.bufStart)))
}

func pickInt(t *rapid.T, label string, xs ...int) int {
	return xs[rapid.IntRange(0, len(xs)-1).Draw(t, label)]
}

// list generates a route list that is entered with the stream at offset pos and
// returns the offset at which it is left (when not ended by a terminal handler).
//
// Every list has exactly one route that matches ("real"), leading decoy routes
// that are decided "no" on the stream at the list's entry position, and trailing
// decoys that are "no" at any position (they look for 0xFF, which the stream
// never contains). More than one matching route per list would make the
// expected flow depend on which routes are still undecided when a later one
// can already be decided - that is C02's subject, not stream integrity.
func (g *gen) list(pos int, depth int, top bool) ([]rx.R, int) {
	var out []rx.R
	first := top && pos == 0
	for i := rapid.IntRange(0, 2).Draw(g.t, "leadingDecoys"); i > 0; i-- {
		out = append(out, rx.R{Match: g.matcher(pos, true, first), Handle: []map[string]any{rx.H("verif_term", "id", g.id("DECOY"))}})
		g.p.Desc = append(g.p.Desc, "decoy-route")
	}
	var r rx.R
	ppHere := first && g.hdrLen > 0
	if ppHere && rapid.Bool().Draw(g.t, "ppMatcher") {
		r.Match = []map[string]any{rx.M("proxy_protocol", map[string]any{})}
		g.p.Classes["matcher-inspected-bytes"] = true
		g.p.Desc = append(g.p.Desc, "proxy_protocol-matcher")
	} else {
		r.Match = g.matcher(pos, false, first)
	}
	if ppHere {
		r.Handle = append(r.Handle, rx.H("proxy_protocol"))
		pos = g.hdrLen
		g.bufStart = pos // the handler continues with a wrapped Connection that has a buffer of its own
		g.p.Classes["proxy_protocol"] = true
		g.p.Desc = append(g.p.Desc, "proxy_protocol-handler")
	}
	nh := rapid.IntRange(0, 5).Draw(g.t, "nhandlers")
	for j := 0; j < nh && !g.ended; j++ {
		switch k := rapid.IntRange(0, 9).Draw(g.t, "handlerKind"); {
		case k <= 2:
			kk := 0
			if rem := len(g.s) - pos; rem > 0 {
				kk = rapid.IntRange(0, min(rem, pickInt(g.t, "takeMax", 4, 100, 3000, 9000))).Draw(g.t, "takeK")
			}
			id := g.id("K")
			r.Handle = append(r.Handle, rx.H("verif_take", "id", id, "k", kk))
			g.p.Expect[id] = g.s[pos : pos+kk]
			g.p.Order = append(g.p.Order, id)
			pos += kk
			if kk > 0 {
				g.p.Classes["take"] = true
			}
			g.p.Desc = append(g.p.Desc, fmt.Sprintf("take(%d)", kk))
		case k == 3:
			r.Handle = append(r.Handle, rx.H("throttle", "read_bytes_per_second", 1e9, "read_burst_size", 1<<20))
			g.p.Classes["throttle"] = true
			g.p.Desc = append(g.p.Desc, "throttle")
		case k == 4 && os.Getenv("VERIF_C01_NOTEE") == "":
			id := g.id("B")
			r.Handle = append(r.Handle, rx.H("tee", "branch", []map[string]any{rx.H("verif_term", "id", id)}))
			g.tees[id] = pos
			g.p.Classes["tee"] = true
			g.p.Desc = append(g.p.Desc, "tee")
		case (k == 5 || k == 8) && depth > 0:
			g.p.Desc = append(g.p.Desc, "subroute[")
			sub, np := g.list(pos, depth-1, false)
			g.p.Desc = append(g.p.Desc, "]")
			r.Handle = append(r.Handle, rx.H("subroute", "routes", sub, "matching_timeout", "2s"))
			pos = np
			g.p.Classes["subroute"] = true
		case k == 6:
			id := g.id("T")
			r.Handle = append(r.Handle, rx.H("verif_term", "id", id))
			g.p.Expect[id] = g.s[pos:]
			g.p.Order = append(g.p.Order, id)
			g.ended = true
			g.p.Desc = append(g.p.Desc, "TERM")
		case k == 7:
			r.Handle = append(r.Handle, rx.H("echo"))
			g.p.Echo, g.p.HasEcho = g.s[pos:], true
			g.ended = true
			g.p.Classes["echo"] = true
			g.p.Desc = append(g.p.Desc, "ECHO")
		}
	}
	out = append(out, r)
	// a trailing decoy must be decidable on what is left of the stream, else matching legitimately ends undecided at EOF
	for i := rapid.IntRange(0, 1).Draw(g.t, "trailingDecoys"); i > 0 && !g.ended && g.room(pos, 3000) > 0; i-- {
		d := rapid.IntRange(1, g.room(pos, 3000)).Draw(g.t, "trailDepth")
		out = append(out, rx.R{Match: []map[string]any{rx.M("verif_need", &rx.Need{N: d, Pos: rapid.IntRange(0, d-1).Draw(g.t, "trailAt"), Val: 0xFF})},
			Handle: []map[string]any{rx.H("verif_term", "id", g.id("DECOY"))}})
		g.p.Desc = append(g.p.Desc, "trailing-decoy")
		g.p.Classes["continued-matching-after-non-terminal-route"] = true
	}
	return out, pos
}

func genHeader(t *rapid.T) []byte {
	v6 := rapid.Bool().Draw(t, "v6")
	src := netip.AddrPortFrom(netip.AddrFrom4([4]byte{10, 1, 2, 3}), 1234)
	dst := netip.AddrPortFrom(netip.AddrFrom4([4]byte{10, 9, 8, 7}), 443)
	fam, f2 := "TCP4", byte(1)
	if v6 {
		src = netip.AddrPortFrom(netip.MustParseAddr("2001:db8::1"), 1234)
		dst = netip.AddrPortFrom(netip.MustParseAddr("2001:db8::2"), 443)
		fam, f2 = "TCP6", 2
	}
	if rapid.Bool().Draw(t, "v2") {
		// no TLVs: the PROXY protocol library in use rejects v2 headers that carry any (that is C12's business)
		return mx.ProxyV2(1, f2, 1, src, dst, nil)
	}
	return mx.ProxyV1(fam, src, dst)
}

func genPayloadLen(t *rapid.T) int {
	switch rapid.IntRange(0, 6).Draw(t, "lenKind") {
	case 0:
		return rapid.IntRange(0, 3).Draw(t, "tiny")
	case 1:
		return pickInt(t, "edge", 2047, 2048, 2049, 4095, 4096, 4097, 8191, 8192, 8193, 10239, 10240, 10241)
	case 2:
		return rapid.IntRange(8193, 5*layer4.MaxMatchingBytes).Draw(t, "huge")
	default:
		return rapid.IntRange(1, 6000).Draw(t, "len")
	}
}

func genCuts(t *rapid.T, n int) []int {
	switch rapid.IntRange(0, 5).Draw(t, "segKind") {
	case 0:
		return nil // one giant read
	case 1: // exact prefetch chunks
		var c []int
		for i := 2048; i < n; i += 2048 {
			c = append(c, i)
		}
		return c
	case 2: // 1-byte trickle at the start, then the rest
		var c []int
		for i := 1; i < min(n, rapid.IntRange(1, 40).Draw(t, "trickle")); i++ {
			c = append(c, i)
		}
		return c
	default:
		k := rapid.IntRange(1, 12).Draw(t, "ncuts")
		c := make([]int, 0, k)
		pos := 0
		for i := 0; i < k; i++ {
			pos += rapid.IntRange(1, max(1, n/2+1)).Draw(t, "seglen")
			c = append(c, pos)
		}
		return c
	}
}

type caseData struct {
	Stream []byte
	Cuts   []int
	Plan   *plan
	// EOFWithData: the read that returns the client's last bytes also reports the end of the stream
	EOFWithData bool
}

func genCase(t *rapid.T) caseData {
	var hdr []byte
	if rapid.IntRange(0, 2).Draw(t, "withHeader") == 0 {
		hdr = genHeader(t)
	}
	tag := rapid.Uint64().Draw(t, "tag")
	payload := hx.Stream(tag, genPayloadLen(t))
	for i, b := range payload {
		if b == 0xFF { // reserved: trailing decoy routes look for it
			payload[i] = 0
		}
	}
	s := append(append([]byte(nil), hdr...), payload...)
	g := &gen{t: t, s: s, hdrLen: len(hdr), tees: map[string]int{}, p: &plan{Expect: map[string][]byte{}, Classes: map[string]bool{}}}
	routes, pos := g.list(0, 3, true)
	g.p.Routes = routes
	if !g.ended {
		// falls through everything: the (draining) fallback must read the rest
		if pos == 0 && g.hdrLen > 0 && !g.p.Classes["proxy_protocol"] {
			pos = 0
		}
		g.p.Expect["FALLBACK"] = s[pos:]
		g.p.Order = append(g.p.Order, "FALLBACK")
		g.p.Classes["fallback"] = true
	}
	for id, at := range g.tees {
		// the main chain reads everything after the tee point: so must the branch
		g.p.Expect[id] = s[at:]
	}
	return caseData{Stream: s, Cuts: genCuts(t, len(s)), Plan: g.p, EOFWithData: rapid.IntRange(0, 2).Draw(t, "eofWithData") == 0}
}

// ---------- running and judging ----------

func runCase(t hx.TB, cd caseData, class string) {
	rl, err := rx.Routes(rx.BareCtx(), cd.Plan.Routes)
	if err != nil {
		t.Fatalf("provision: %v", err)
	}
	h := rx.Compile(rl, 5*time.Second, true)
	end := hx.EndEOF
	if cd.EOFWithData {
		end = hx.EndEOFWithData
	}
	under := hx.NewScriptConn(hx.Split(cd.Stream, cd.Cuts), end)
	cx := layer4.WrapConnection(under, make([]byte, 0, layer4.VerifPrefetchChunkSize), zap.NewNop())
	tr := rx.NewTrace()
	rx.Bind(cx, tr)
	done := make(chan error, 1)
	go func() {
		defer func() {
			if r := recover(); r != nil {
				done <- fmt.Errorf("panic: %v", r)
			}
		}()
		done <- h.Handle(cx)
	}()
	var herr error
	select {
	case herr = <-done:
	case <-time.After(20 * time.Second):
		hx.Fail(t, "C01", "hang", "handling did not finish within 20 s\n%s", describe(cd, nil))
		return
	}
	_, _, w := under.Snapshot()
	judge(t, cd, tr, herr, w, class, func(evs []rx.Event) string { return describe(cd, evs) })
}

// judge compares what the recorders saw with the plan's expectations.
func judge(t hx.TB, cd caseData, tr *rx.Trace, herr error, echoed []byte, class string, desc func([]rx.Event) string) {
	// tee branches run in their own goroutine: wait (bounded) until every expected recorder reported
	deadline := time.Now().Add(3 * time.Second)
	var evs []rx.Event
	for {
		evs = tr.Snapshot()
		seen := map[string]bool{}
		for _, e := range evs {
			seen[e.ID] = true
			if e.Kind == "fallback" {
				seen["FALLBACK"] = true
			}
		}
		missing := false
		for id := range cd.Plan.Expect {
			if !seen[id] {
				missing = true
			}
		}
		if !missing || time.Now().After(deadline) {
			break
		}
		time.Sleep(2 * time.Millisecond)
	}
	if herr != nil {
		hx.Fail(t, "C01", "handle-error", "Handle returned %v\n%s", herr, desc(evs))
		return
	}
	got := map[string][]byte{}
	var order []string
	for _, e := range evs {
		id := e.ID
		if e.Kind == "fallback" {
			id = "FALLBACK"
		}
		if _, dup := got[id]; dup {
			hx.Fail(t, "C01", "ran-twice", "recorder %s ran twice\n%s", id, desc(evs))
			return
		}
		got[id] = e.Data
		if !strings.HasPrefix(id, "B") {
			order = append(order, id)
		}
	}
	for id := range got {
		if _, ok := cd.Plan.Expect[id]; !ok {
			hx.Fail(t, "C01", "unexpected-handler", "handler %s ran although its route cannot match\n%s", id, desc(evs))
			return
		}
	}
	for _, id := range cd.Plan.Order {
		if err := cmp(id, got, cd.Plan.Expect[id]); err != "" {
			hx.Fail(t, "C01", keyFor(id, cd), "%s\n%s", err, desc(evs))
			return
		}
	}
	if fmt.Sprint(order) != fmt.Sprint(cd.Plan.Order) {
		hx.Fail(t, "C01", "order", "recorders ran in order %v, want %v\n%s", order, cd.Plan.Order, desc(evs))
		return
	}
	for id := range cd.Plan.Expect {
		if strings.HasPrefix(id, "B") {
			if err := cmp(id, got, cd.Plan.Expect[id]); err != "" {
				hx.Fail(t, "C01", "tee-branch", "tee branch: %s\n%s", err, desc(evs))
				return
			}
		}
	}
	if cd.Plan.HasEcho {
		w := echoed
		if !bytes.Equal(w, cd.Plan.Echo) {
			hx.Fail(t, "C01", keyFor("ECHO", cd), "the client got back %d bytes, want %d; first difference at %d\n%s", len(w), len(cd.Plan.Echo), hx.FirstDiff(w, cd.Plan.Echo), desc(evs))
			return
		}
	}
	// accounting
	read := 0
	for id, b := range cd.Plan.Expect {
		if !strings.HasPrefix(id, "B") {
			read += len(b)
		}
	}
	read += len(cd.Plan.Echo)
	nontrivial := cd.Plan.Classes["matcher-inspected-bytes"] && read > 0
	cl := []string{"C01/" + class}
	for c := range cd.Plan.Classes {
		cl = append(cl, "C01/"+c)
	}
	if len(cd.Stream) > layer4.MaxMatchingBytes {
		cl = append(cl, "C01/stream-larger-than-limit")
	}
	if len(cd.Cuts) > 0 {
		cl = append(cl, "C01/segmented")
	}
	hx.Case(hx.Hash(planJSON(cd.Plan), cd.Stream, fmt.Sprint(cd.Cuts)), nontrivial, cl...)
	if nontrivial {
		hx.Sample(strings.Join(cd.Plan.Desc, ","), map[string]any{"stream_len": len(cd.Stream), "segments": len(cd.Cuts) + 1, "plan": strings.Join(cd.Plan.Desc, " "), "recorders": cd.Plan.Order})
	}
}

func keyFor(id string, cd caseData) string {
	switch {
	case cd.Plan.Classes["tee"]:
		return "stream/with-tee"
	case cd.Plan.Classes["proxy_protocol"]:
		return "stream/with-proxy_protocol"
	}
	return "stream"
}

func cmp(id string, got map[string][]byte, want []byte) string {
	g, ok := got[id]
	if !ok {
		return fmt.Sprintf("recorder %s did not run (it must read %d bytes)", id, len(want))
	}
	if !bytes.Equal(g, want) {
		return fmt.Sprintf("recorder %s read %d bytes, want %d; first difference at offset %d (loss, duplication, reordering or alteration)", id, len(g), len(want), hx.FirstDiff(g, want))
	}
	return ""
}

func planJSON(p *plan) string {
	b, _ := json.Marshal(p.Routes)
	return string(b)
}

func describe(cd caseData, evs []rx.Event) string {
	var sb strings.Builder
	fmt.Fprintf(&sb, "  stream: %d bytes (header %v), cuts=%v\n  routes: %s\n  trace:", len(cd.Stream), cd.Plan.Classes["proxy_protocol"], cd.Cuts, clipS(planJSON(cd.Plan), 1500))
	for _, e := range evs {
		fmt.Fprintf(&sb, " %s/%s(read %d)", e.Kind, e.ID, len(e.Data))
	}
	return sb.String()
}

func clipS(s string, n int) string {
	if len(s) > n {
		return s[:n] + "..."
	}
	return s
}

func TestStreamIntegrity(t *testing.T) {
	rapid.Check(t, func(rt *rapid.T) {
		runCase(rt, genCase(rt), "generated")
	})
}
