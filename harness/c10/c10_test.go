// C10 — selection policies return an available upstream iff one exists, per contract.
package c10

import (
	"encoding/json"
	"fmt"
	"net"
	"testing"

	"github.com/caddyserver/caddy/v2"
	"go.uber.org/zap"
	"pgregory.net/rapid"

	"github.com/mholt/caddy-l4/layer4"
	"github.com/mholt/caddy-l4/modules/l4proxy"

	"verifharness/hx"
	"verifharness/rx"
)

func TestMain(m *testing.M) { hx.Main(m) }

// ---- generated pool state and its reference availability ----

type upSpec struct {
	Peers    []l4proxy.VerifPeer
	MaxConns int
	MaxFails int
}

// availableRef is the reference predicate, written from the property text:
// healthy, below its failure limit and below its connection limit (every peer).
func (u upSpec) availableRef() bool {
	for _, p := range u.Peers {
		if p.Unhealthy {
			return false
		}
		if u.MaxFails > 0 && p.Fails >= u.MaxFails {
			return false
		}
		if u.MaxConns > 0 && p.NumConns >= u.MaxConns {
			return false
		}
	}
	return true
}

func (u upSpec) total() int {
	n := 0
	for _, p := range u.Peers {
		n += p.NumConns
	}
	return n
}

func genUp(t *rapid.T) upSpec {
	u := upSpec{MaxConns: rapid.IntRange(0, 3).Draw(t, "maxConns"), MaxFails: rapid.IntRange(0, 2).Draw(t, "maxFails")}
	for i := rapid.IntRange(1, 3).Draw(t, "npeers"); i > 0; i-- {
		u.Peers = append(u.Peers, l4proxy.VerifPeer{
			Unhealthy: rapid.IntRange(0, 4).Draw(t, "unhealthy") == 0,
			Fails:     rapid.IntRange(0, 2).Draw(t, "fails"),
			NumConns:  rapid.IntRange(0, 3).Draw(t, "conns"),
		})
	}
	return u
}

func build(specs []upSpec) l4proxy.UpstreamPool {
	var pool l4proxy.UpstreamPool
	for i, s := range specs {
		dial := []string{}
		for j := range s.Peers {
			dial = append(dial, fmt.Sprintf("10.0.%d.%d:80", i, j+1))
		}
		pool = append(pool, l4proxy.VerifUpstream(dial, s.Peers, s.MaxConns, s.MaxFails))
	}
	return pool
}

func policy(name string, cfg map[string]any) (l4proxy.Selector, error) {
	if cfg == nil {
		cfg = map[string]any{}
	}
	b, _ := json.Marshal(cfg)
	v, err := rx.BareCtx().LoadModuleByID("layer4.proxy.selection_policies."+name, b)
	if err != nil {
		return nil, err
	}
	return v.(l4proxy.Selector), nil
}

func conn(remote net.Addr) *layer4.Connection {
	sc := hx.NewScriptConn(nil, hx.EndEOF)
	sc.Remote = remote
	return layer4.WrapConnection(sc, nil, zap.NewNop())
}

func sel(s l4proxy.Selector, pool l4proxy.UpstreamPool, cx *layer4.Connection) (u *l4proxy.Upstream, pan any) {
	defer func() { pan = recover() }()
	return s.Select(pool, cx), nil
}

func indexOf(pool l4proxy.UpstreamPool, u *l4proxy.Upstream) int {
	for i, x := range pool {
		if x == u {
			return i
		}
	}
	return -1
}

type poolCase struct {
	Specs  []upSpec
	Policy string
	Choose int
	Remote string
}

func describe(pc poolCase, avail []int) string {
	b, _ := json.Marshal(pc)
	return fmt.Sprintf("case=%s available=%v", b, avail)
}

func genRemote(t *rapid.T) net.Addr {
	port := rapid.IntRange(1, 65535).Draw(t, "port")
	switch rapid.IntRange(0, 4).Draw(t, "addrKind") {
	case 0:
		return &net.TCPAddr{IP: net.IPv4(10, byte(rapid.IntRange(0, 3).Draw(t, "ipb")), 0, byte(rapid.IntRange(1, 9).Draw(t, "ipd"))), Port: port}
	case 1:
		return &net.TCPAddr{IP: net.ParseIP(fmt.Sprintf("2001:db8::%x", rapid.IntRange(1, 999).Draw(t, "ip6"))), Port: port}
	case 2:
		// a UDP client (layer4's virtual UDP connections report *net.UDPAddr)
		return &net.UDPAddr{IP: net.IPv4(10, byte(rapid.IntRange(0, 3).Draw(t, "uipb")), 0, byte(rapid.IntRange(1, 9).Draw(t, "uipd"))), Port: port}
	case 3:
		return &net.UDPAddr{IP: net.ParseIP(fmt.Sprintf("2001:db8::%x", rapid.IntRange(1, 999).Draw(t, "uip6"))), Port: port}
	default:
		return &net.UnixAddr{Net: "unix", Name: "/tmp/sock"} // no port at all
	}
}

var policies = []string{"first", "round_robin", "ip_hash", "least_conn", "random", "random_choose"}

// checkPool applies every oracle for one policy on one pool state.
func checkPool(t hx.TB, pc poolCase, remote net.Addr, class string) {
	pool := build(pc.Specs)
	var avail []int
	for i, s := range pc.Specs {
		if s.availableRef() {
			avail = append(avail, i)
		}
		// cross-check of the harness' construction, not of the property: the module's own predicate must agree
		if pool[i].VerifAvailable() != s.availableRef() {
			hx.Fail(t, "C10", "available-predicate", "upstream %d: available()=%v but healthy/fails/conns state says %v\n%s", i, pool[i].VerifAvailable(), s.availableRef(), describe(pc, avail))
			return
		}
	}
	inAvail := func(i int) bool {
		for _, a := range avail {
			if a == i {
				return true
			}
		}
		return false
	}
	var cfg map[string]any
	if pc.Policy == "random_choose" && pc.Choose > 0 {
		cfg = map[string]any{"choose": pc.Choose}
	}
	s, err := policy(pc.Policy, cfg)
	if err != nil {
		t.Fatalf("policy %s: %v", pc.Policy, err)
	}
	cx := conn(remote)
	calls := 1
	switch pc.Policy {
	case "round_robin":
		calls = 3*len(avail) + 2
	case "random", "random_choose", "least_conn":
		calls = 12
	}
	var seq []int
	for c := 0; c < calls; c++ {
		u, pan := sel(s, pool, cx)
		if pan != nil {
			hx.Fail(t, "C10", "panic/"+pc.Policy, "policy %s panicked: %v\n%s", pc.Policy, pan, describe(pc, avail))
			return
		}
		idx := indexOf(pool, u)
		seq = append(seq, idx)
		if len(avail) == 0 {
			if u != nil {
				hx.Fail(t, "C10", "selected-unavailable/"+pc.Policy, "policy %s returned upstream %d although none is available\n%s", pc.Policy, idx, describe(pc, avail))
				return
			}
			continue
		}
		if u == nil {
			hx.Fail(t, "C10", "none-selected/"+pc.Policy, "policy %s returned none although upstreams %v are available\n%s", pc.Policy, avail, describe(pc, avail))
			return
		}
		if !inAvail(idx) {
			hx.Fail(t, "C10", "selected-unavailable/"+pc.Policy, "policy %s returned upstream %d which is not available\n%s", pc.Policy, idx, describe(pc, avail))
			return
		}
		switch pc.Policy {
		case "first":
			if idx != avail[0] {
				hx.Fail(t, "C10", "first-not-earliest", "policy first returned upstream %d, the earliest available one is %d\n%s", idx, avail[0], describe(pc, avail))
				return
			}
		case "least_conn":
			minc := -1
			for _, a := range avail {
				if c := pc.Specs[a].total(); minc < 0 || c < minc {
					minc = c
				}
			}
			if pc.Specs[idx].total() != minc {
				hx.Fail(t, "C10", "least-conn-not-least", "policy least_conn returned upstream %d with %d connections, the minimum among the available is %d\n%s", idx, pc.Specs[idx].total(), minc, describe(pc, avail))
				return
			}
		}
	}
	if pc.Policy == "round_robin" && len(avail) > 0 {
		// every window of |A| consecutive selections visits every available upstream exactly once
		for w := 0; w+len(avail) <= len(seq); w++ {
			seen := map[int]int{}
			for _, i := range seq[w : w+len(avail)] {
				seen[i]++
			}
			for _, a := range avail {
				if seen[a] != 1 {
					hx.Fail(t, "C10", "round-robin-cycle", "policy round_robin: selections %v, the window starting at call %d does not visit every available upstream %v exactly once\n%s", seq, w, avail, describe(pc, avail))
					return
				}
			}
		}
	}
	if pc.Policy == "ip_hash" && len(avail) > 0 {
		chosen := seq[0]
		// same IP, other port -> same upstream
		if other := otherPort(remote); other != nil {
			u, _ := sel(s, pool, conn(other))
			if indexOf(pool, u) != chosen {
				hx.Fail(t, "C10", "ip-hash-port-dependent", "policy ip_hash chose upstream %d for %v but %d for %v (same IP)\n%s", chosen, remote, indexOf(pool, u), other, describe(pc, avail))
				return
			}
		}
		// a fresh policy instance and a rebuilt pool give the same answer (pure function of IP and available set)
		s2, _ := policy("ip_hash", nil)
		u2, _ := sel(s2, build(pc.Specs), conn(remote))
		if u2 == nil || u2.String() != pool[chosen].String() {
			hx.Fail(t, "C10", "ip-hash-not-deterministic", "policy ip_hash is not a function of client IP and pool\n%s", describe(pc, avail))
			return
		}
		// other upstreams leaving never moves the client
		for _, a := range avail {
			if a == chosen {
				continue
			}
			specs2 := append([]upSpec(nil), pc.Specs...)
			down := specs2[a]
			down.Peers = append([]l4proxy.VerifPeer(nil), down.Peers...)
			down.Peers[0].Unhealthy = true
			specs2[a] = down
			p2 := build(specs2)
			u, pan := sel(s, p2, conn(remote))
			if pan != nil || indexOf(p2, u) != chosen {
				hx.Fail(t, "C10", "ip-hash-moved", "policy ip_hash moved the client from upstream %d to %d when upstream %d became unavailable (panic=%v)\n%s", chosen, indexOf(p2, u), a, pan, describe(pc, avail))
				return
			}
		}
	}
	nontrivial := len(pc.Specs) >= 2 && len(avail) > 0 && len(avail) < len(pc.Specs)
	multi := false
	for _, sp := range pc.Specs {
		if len(sp.Peers) > 1 {
			multi = true
		}
	}
	cl := []string{"C10/" + class, "C10/policy/" + pc.Policy, fmt.Sprintf("C10/available/%d-of-%d", min(len(avail), 3), min(len(pc.Specs), 4))}
	if multi {
		cl = append(cl, "C10/multi-peer")
	}
	hx.Case(hx.Hash(describe(pc, nil)), nontrivial, cl...)
	if nontrivial {
		hx.Sample(pc.Policy, map[string]any{"policy": pc.Policy, "pool": pc.Specs, "available": avail, "selections": seq, "remote": remote.String()})
	}
}

func otherPort(a net.Addr) net.Addr {
	switch t := a.(type) {
	case *net.TCPAddr:
		return &net.TCPAddr{IP: t.IP, Port: t.Port%65535 + 1}
	case *net.UDPAddr:
		return &net.UDPAddr{IP: t.IP, Port: t.Port%65535 + 1}
	}
	return nil
}

func TestPolicies(t *testing.T) {
	rapid.Check(t, func(rt *rapid.T) {
		pc := poolCase{Policy: policies[rapid.IntRange(0, len(policies)-1).Draw(rt, "policy")]}
		n := rapid.IntRange(0, 8).Draw(rt, "poolSize")
		for i := 0; i < n; i++ {
			pc.Specs = append(pc.Specs, genUp(rt))
		}
		if pc.Policy == "random_choose" {
			pc.Choose = rapid.IntRange(0, 10).Draw(rt, "choose")
			if pc.Choose == 1 {
				pc.Choose = 2 // choose < 2 is rejected by Validate
			}
		}
		remote := genRemote(rt)
		pc.Remote = remote.String()
		checkPool(rt, pc, remote, "generated")
	})
}

// TestSequencesWithStateChanges: selection sequences on one policy instance
// while upstream states change between calls (rapid state machine).
func TestSequencesWithStateChanges(t *testing.T) {
	rapid.Check(t, func(rt *rapid.T) {
		name := policies[rapid.IntRange(0, len(policies)-1).Draw(rt, "policy")]
		n := rapid.IntRange(1, 8).Draw(rt, "poolSize")
		specs := make([]upSpec, n)
		for i := range specs {
			specs[i] = genUp(rt)
		}
		pool := build(specs)
		s, err := policy(name, nil)
		if err != nil {
			rt.Fatalf("%v", err)
		}
		remote := genRemote(rt)
		cx := conn(remote)
		var history []string
		rrSince := []int{} // round robin: selections since the last state change
		rt.Repeat(map[string]func(*rapid.T){
			"select": func(rt *rapid.T) {
				var avail []int
				for i, sp := range specs {
					if sp.availableRef() {
						avail = append(avail, i)
					}
				}
				u, pan := sel(s, pool, cx)
				idx := indexOf(pool, u)
				history = append(history, fmt.Sprintf("select->%d", idx))
				pc := poolCase{Specs: specs, Policy: name, Remote: remote.String()}
				if pan != nil {
					hx.Fail(rt, "C10", "panic/"+name, "policy %s panicked: %v after %v\n%s", name, pan, history, describe(pc, avail))
					return
				}
				ok := false
				for _, a := range avail {
					if a == idx {
						ok = true
					}
				}
				if len(avail) == 0 && u != nil || len(avail) > 0 && !ok {
					key := "selected-unavailable/"
					if u == nil {
						key = "none-selected/"
					}
					hx.Fail(rt, "C10", key+name, "policy %s returned %d with available %v after %v\n%s", name, idx, avail, history, describe(pc, avail))
					return
				}
				if name == "round_robin" && len(avail) > 0 {
					rrSince = append(rrSince, idx)
					if len(rrSince) >= len(avail) {
						seen := map[int]int{}
						for _, i := range rrSince[len(rrSince)-len(avail):] {
							seen[i]++
						}
						for _, a := range avail {
							if seen[a] != 1 {
								hx.Fail(rt, "C10", "round-robin-cycle", "policy round_robin: the last %d selections %v (pool unchanged meanwhile) do not visit every available upstream %v once; history %v\n%s", len(avail), rrSince, avail, history, describe(pc, avail))
								return
							}
						}
					}
				}
			},
			"change": func(rt *rapid.T) {
				i := rapid.IntRange(0, n-1).Draw(rt, "which")
				specs[i] = genUp(rt)
				pool[i] = l4proxy.VerifUpstream(pool[i].Dial[:min(len(pool[i].Dial), len(specs[i].Peers))], specs[i].Peers, specs[i].MaxConns, specs[i].MaxFails)
				for len(pool[i].Dial) < len(specs[i].Peers) {
					pool[i].Dial = append(pool[i].Dial, fmt.Sprintf("10.9.%d.%d:80", i, len(pool[i].Dial)))
				}
				history = append(history, fmt.Sprintf("change(%d)", i))
				rrSince = rrSince[:0]
			},
		})
		hx.Case(hx.Hash("seq", name, fmt.Sprint(history)), len(history) > 3 && n >= 2, "C10/sequence", "C10/policy/"+name)
		if len(history) > 3 {
			hx.Sample("seq/"+name, map[string]any{"policy": name, "pool_size": n, "history": history})
		}
	})
}

// exhaustive small pools: every availability vector for 0..4 single-peer upstreams, every policy
func TestExhaustiveAvailabilityVectors(t *testing.T) {
	remote := &net.TCPAddr{IP: net.IPv4(10, 1, 2, 3), Port: 4444}
	count := 0
	for n := 0; n <= 5; n++ {
		for mask := 0; mask < 1<<n; mask++ {
			for kind := 0; kind < 3; kind++ { // how an upstream is made unavailable
				specs := make([]upSpec, n)
				for i := range specs {
					sp := upSpec{Peers: []l4proxy.VerifPeer{{NumConns: i % 3}}, MaxConns: 5, MaxFails: 2}
					if mask>>i&1 == 0 {
						switch kind {
						case 0:
							sp.Peers[0].Unhealthy = true
						case 1:
							sp.Peers[0].Fails = 2
						default:
							sp.Peers[0].NumConns = 5
						}
					}
					specs[i] = sp
				}
				for _, p := range policies {
					for _, choose := range []int{0, 2, 3} {
						if p != "random_choose" && choose != 0 {
							continue
						}
						checkPool(t, poolCase{Specs: specs, Policy: p, Choose: choose, Remote: remote.String()}, remote, "exhaustive")
						count++
					}
				}
			}
		}
	}
	hx.Class("C10/exhaustive-pools", int64(count))
}

var _ = caddy.Context{}
