package c08

import (
	"bytes"
	"fmt"
	"net"
	"os"
	"runtime"
	"sync"
	"testing"
	"time"

	"pgregory.net/rapid"

	"verifharness/hx"
	"verifharness/rx"
)

// UDP associations share one socket, one reader goroutine and one pool of
// datagram buffers. Each client here sends datagrams cut from a stream only it
// owns; whatever comes back to its address must be bytes of that stream, in
// order (datagrams may be lost, never mixed).

type udpWorkload struct {
	name  string
	first byte
}

var udpWorkloads = []udpWorkload{
	{"udp-echo", 'W'},
	{"udp-deep-match-echo", 'U'},      // the matcher wants 3000 bytes: a large first datagram is read in several pieces while matching
	{"udp-small-reads-echo", 'V'},     // a 64-byte burst makes the throttle read every datagram in 64-byte pieces
	{"udp-tee-small-reads-echo", 'X'}, // the same behind a tee
}

type udpPlan struct {
	W      int
	Tag    uint64
	Sizes  []int
	Jitter time.Duration
	Gap    time.Duration
}

func (p udpPlan) stream() []byte {
	total := 0
	for _, s := range p.Sizes {
		total += s
	}
	s := hx.Stream(p.Tag, total)
	s[0] = udpWorkloads[p.W].first
	return s
}

func udpAddr(i int) net.Addr {
	return &net.UDPAddr{IP: net.IPv4(10, 8, byte(i/200), byte(1+i%200)), Port: 20000 + i}
}

func genUDPBatch(t *rapid.T, maxClients int) []udpPlan {
	n := rapid.IntRange(2, maxClients).Draw(t, "nclients")
	var out []udpPlan
	for i := 0; i < n; i++ {
		p := udpPlan{W: rapid.IntRange(0, len(udpWorkloads)-1).Draw(t, "workload"), Tag: uint64(i)*104729 + rapid.Uint64Range(1, 1<<40).Draw(t, "tag"),
			Jitter: time.Duration(rapid.IntRange(0, 2000).Draw(t, "jitterUs")) * time.Microsecond, Gap: time.Duration(rapid.IntRange(0, 300).Draw(t, "gapUs")) * time.Microsecond}
		k := rapid.IntRange(1, 5).Draw(t, "ndatagrams")
		for j := 0; j < k; j++ {
			switch rapid.IntRange(0, 3).Draw(t, "sizeKind") {
			case 0:
				p.Sizes = append(p.Sizes, rapid.IntRange(16, 300).Draw(t, "small"))
			case 1:
				p.Sizes = append(p.Sizes, 9000)
			default:
				p.Sizes = append(p.Sizes, rapid.IntRange(2049, 9000).Draw(t, "big")) // more than one prefetch chunk
			}
		}
		if udpWorkloads[p.W].first == 'U' {
			p.Sizes[0] = max(p.Sizes[0], 3100) // decidable without waiting for the matching timeout
		}
		out = append(out, p)
	}
	return out
}

func buildUDPServer(t hx.TB) *hx.FakePacketConn {
	sel := func(first byte, depth int) []map[string]any {
		return []map[string]any{rx.M("verif_need", &rx.Need{N: depth, Pos: 0, Val: first, Early: true})}
	}
	small := rx.H("throttle", "read_bytes_per_second", 5e8, "read_burst_size", 64)
	routes := []rx.R{
		{Match: sel('W', 1), Handle: []map[string]any{rx.H("echo")}},
		{Match: sel('U', 3000), Handle: []map[string]any{rx.H("echo")}},
		{Match: sel('V', 1), Handle: []map[string]any{small, rx.H("echo")}},
		{Match: sel('X', 1), Handle: []map[string]any{rx.H("tee", "branch", []map[string]any{rx.H("verif_term", "id", "UDPBRANCH")}), small, rx.H("echo")}},
	}
	srv, err := rx.Server(rx.BareCtx(), routes, 90*time.Second)
	if err != nil {
		t.Fatalf("provision: %v", err)
	}
	pc := hx.NewFakePacketConn()
	go func() { _ = srv.VerifServePacket(pc) }()
	return pc
}

func describeUDP(plans []udpPlan) string {
	s := fmt.Sprintf("%d UDP clients:", len(plans))
	for i, p := range plans {
		if i == 12 {
			s += " ..."
			break
		}
		s += fmt.Sprintf(" #%d %s%v", i, udpWorkloads[p.W].name, p.Sizes)
	}
	return s
}

func runUDPBatch(t hx.TB, plans []udpPlan, round int) {
	// A UDP association lives until its idle timeout (30 s, a constant of the server) has passed, and it can only end
	// while the server loop is still there to hear of it (an association that expires after the socket was closed
	// blocks for good on its notification - a leak at shutdown that none of the listed properties speaks about). So the
	// socket of a batch stays open until its associations have expired, and a long campaign waits for earlier
	// associations to go away before it starts new ones; it would otherwise keep tens of thousands of them, and their
	// buffers, alive at once.
	for wait := 0; runtime.NumGoroutine() > 6000 && wait < 90; wait++ {
		time.Sleep(500 * time.Millisecond)
	}
	pc := buildUDPServer(t)
	defer time.AfterFunc(40*time.Second, func() { pc.Close() })
	want := map[string][]byte{}
	idx := map[string]int{}
	var wg sync.WaitGroup
	total := 0
	for i, p := range plans {
		i, p := i, p
		s := p.stream()
		want[udpAddr(i).String()] = s
		idx[udpAddr(i).String()] = i
		total += len(s)
		wg.Add(1)
		go func() {
			defer wg.Done()
			time.Sleep(p.Jitter)
			off := 0
			for _, n := range p.Sizes {
				pc.Inject(s[off:off+n], udpAddr(i), 3*time.Second)
				off += n
				if p.Gap > 0 {
					time.Sleep(p.Gap)
				}
			}
		}()
	}
	wg.Wait()
	// wait for the echoes (everything, or no progress for a while: lost datagrams are not this property's business)
	got, last, lastChange := 0, -1, time.Now()
	for got < total && time.Since(lastChange) < 400*time.Millisecond {
		got = 0
		for _, d := range pc.SentSnapshot() {
			got += len(d.Data)
		}
		if got != last {
			last, lastChange = got, time.Now()
		}
		time.Sleep(2 * time.Millisecond)
	}
	pos := map[string]int{}
	multi := 0
	for _, d := range pc.SentSnapshot() {
		a := d.Addr.String()
		own, ok := want[a]
		if !ok {
			hx.Fail(t, "C08", "cross-talk/udp-unknown-destination", "a datagram of %d bytes was sent to %s, which is no client of this run\n  %s", len(d.Data), a, describeUDP(plans))
			return
		}
		at := bytes.Index(own[pos[a]:], d.Data)
		if at < 0 {
			w := udpWorkloads[plans[idx[a]].W]
			whose := "nobody's"
			for b, other := range want {
				if b != a && bytes.Contains(other, d.Data) {
					whose = fmt.Sprintf("client #%d's", idx[b])
				}
			}
			hx.Fail(t, "C08", "cross-talk/"+w.name, "client #%d (%s) was sent %d bytes that are not the next bytes of its own stream (after offset %d); they are %s\n  %s",
				idx[a], w.name, len(d.Data), pos[a], whose, describeUDP(plans))
			return
		}
		pos[a] += at + len(d.Data)
	}
	for _, p := range plans {
		for _, n := range p.Sizes {
			if n > 2048 {
				multi++
				break
			}
		}
	}
	used := map[string]bool{}
	for _, p := range plans {
		used[udpWorkloads[p.W].name] = true
	}
	cl := []string{"C08/udp-batch", fmt.Sprintf("C08/gomaxprocs/%d", runtime.GOMAXPROCS(0))}
	for n := range used {
		cl = append(cl, "C08/workload/"+n)
	}
	if got == total {
		cl = append(cl, "C08/udp-everything-echoed")
	}
	if os.Getenv("VERIF_RACE") != "" {
		cl = append(cl, "C08/race-detector-run")
	}
	hx.Class("C08/udp-clients", int64(len(plans)))
	nontrivial := multi >= 2 && got > 0
	hx.Case(hx.Hash(describeUDP(plans), round), nontrivial, cl...)
	if nontrivial {
		hx.Sample("udp", map[string]any{"clients": len(plans), "with_datagram_over_2048": multi, "bytes_sent": total, "bytes_echoed": got, "workloads": keys(used)})
	}
}

func TestConcurrentUDPAssociations(t *testing.T) {
	maxClients := 24
	if os.Getenv("VERIF_RACE") != "" {
		maxClients = 12
	}
	round := 0
	rapid.Check(t, func(rt *rapid.T) { round++; runUDPBatch(rt, genUDPBatch(rt, maxClients), round) })
}
