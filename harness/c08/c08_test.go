// C08 — concurrent connections never interfere: no cross-talk, no data races.
package c08

import (
	"bytes"
	"crypto/tls"
	"encoding/hex"
	"fmt"
	"io"
	"net"
	"os"
	"runtime"
	"strings"
	"sync"
	"testing"
	"time"

	"pgregory.net/rapid"

	"github.com/mholt/caddy-l4/layer4"
	"github.com/mholt/caddy-l4/modules/l4openvpn"

	"verifharness/hx"
	"verifharness/mx"
	"verifharness/rx"
)

func TestMain(m *testing.M) { hx.Main(m) }

// ---- upstream servers shared by all proxied connections ----

func serve(t hx.TB, echo bool) net.Listener {
	ln, err := hx.Listen("tcp", "127.0.0.1:0")
	if err != nil {
		t.Fatalf("listen: %v", err)
	}
	go func() {
		for {
			c, err := ln.Accept()
			if err != nil {
				return
			}
			go func() {
				defer c.Close()
				if echo {
					_, _ = io.Copy(c, c)
					if tc, ok := c.(*net.TCPConn); ok {
						_ = tc.CloseWrite()
					}
				} else {
					// the second peer of a two-peer upstream: it talks too (so that two upstream->client
					// copiers write to the client concurrently) but only in bytes no client stream contains
					for i := 0; i < 20; i++ {
						_, _ = c.Write([]byte{0xFF})
					}
					_, _ = io.Copy(io.Discard, c)
				}
			}()
		}
	}()
	return ln
}

var policies = []string{"first", "round_robin", "ip_hash", "least_conn", "random", "random_choose"}

type workload struct {
	name  string
	first byte
	drop  int // bytes of the stream the route consumes before echoing
	depth int
}

var workloads = []workload{
	{"echo", 'A', 0, 1},
	{"deep-match-echo", 'B', 0, 3000},
	{"tee-echo", 'C', 0, 1500},
	{"subroute-take-echo", 'D', 2, 1},
	{"throttle-echo", 'E', 0, 1},
	{"proxy-first", 'F', 0, 1},
	{"proxy-round_robin", 'G', 0, 1},
	{"proxy-ip_hash", 'H', 0, 1},
	{"proxy-least_conn", 'I', 0, 1},
	{"proxy-random", 'J', 0, 1},
	{"proxy-random_choose", 'K', 0, 1},
	{"proxy-two-peers", 'L', 0, 1},
	{"subroute-fallthrough-echo", 'M', 0, 1}, // nothing inside the subroute matches: routing goes on behind it
	{"openvpn-auth-echo", 0, 0, 0},
	{"tls-sni-a-echo", 1, 0, 0},       // TLS client hello with SNI a.example.com: terminated, echoed
	{"tls-sni-b-take1-echo", 2, 1, 0}, // SNI b.example.com: terminated, first byte consumed, rest echoed
	// TLS terminated, then proxied over TLS to an upstream that reports the server name it was shown: every client's own
	{"tls-sni-c-proxied-over-tls", 5, 0, 0},
	{"tls-sni-d-proxied-over-tls", 6, 0, 0},
	{"h2-victim-host-echo", 3, 0, 0}, // HTTP/2 with prior knowledge for victim.example: routed by host, echoed
	// an HTTP/2 header block that refers to an entry of the dynamic table it never defined: not decodable on its own,
	// so this connection matches no host and is closed (nothing comes back) - whatever other connections defined
	{"h2-undefined-table-entry", 4, 0, 0},
}

var tlsNames = map[byte]string{1: "a.example.com", 2: "b.example.com", 5: "c.example.com", 6: "d.example.com"}

var ovpnDigests = []string{"SHA-1", "SHA-256", "SHA-512", "MD5"}

func buildServer(t hx.TB) (*layer4.Server, func()) {
	var lns []net.Listener
	var ups []map[string]any
	for i := 0; i < 3; i++ {
		ln := serve(t, true)
		lns = append(lns, ln)
		ups = append(ups, map[string]any{"dial": []string{ln.Addr().String()}})
	}
	echo2, sink := serve(t, true), serve(t, false)
	lns = append(lns, echo2, sink)
	sel := func(first byte, depth int) []map[string]any {
		return []map[string]any{rx.M("verif_need", &rx.Need{N: depth, Pos: 0, Val: first, Early: true})}
	}
	routes := []rx.R{
		{Match: sel('A', 1), Handle: []map[string]any{rx.H("echo")}},
		{Match: sel('B', 3000), Handle: []map[string]any{rx.H("echo")}},
		{Match: sel('C', 1500), Handle: []map[string]any{rx.H("tee", "branch", []map[string]any{rx.H("verif_term", "id", "BRANCH")}), rx.H("echo")}},
		{Match: sel('D', 1), Handle: []map[string]any{rx.H("subroute", "matching_timeout", "90s", "routes", []rx.R{
			{Match: []map[string]any{rx.M("verif_need", &rx.Need{N: 2, Pos: 1, Val: 0xFF})}, Handle: []map[string]any{rx.H("verif_term", "id", "NEVER")}},
			{Handle: []map[string]any{rx.H("verif_take", "id", "TAKE2", "k", 2), rx.H("echo")}}})}},
		{Match: sel('E', 1), Handle: []map[string]any{rx.H("throttle", "total_read_bytes_per_second", 5e8, "total_read_burst_size", 1<<20, "read_bytes_per_second", 5e8, "read_burst_size", 1<<20), rx.H("echo")}},
	}
	for i, p := range policies {
		routes = append(routes, rx.R{Match: sel(byte('F'+i), 1), Handle: []map[string]any{
			rx.H("proxy", "upstreams", ups, "load_balancing", map[string]any{"selection": map[string]any{"policy": p}})}})
	}
	routes = append(routes, rx.R{Match: sel('L', 1), Handle: []map[string]any{
		rx.H("proxy", "upstreams", []map[string]any{{"dial": []string{echo2.Addr().String(), sink.Addr().String()}}})}})
	routes = append(routes,
		rx.R{Match: sel('M', 1), Handle: []map[string]any{rx.H("subroute", "matching_timeout", "90s", "routes", []rx.R{
			{Match: []map[string]any{rx.M("verif_need", &rx.Need{N: 2, Pos: 1, Val: 0xFF})}, Handle: []map[string]any{rx.H("verif_term", "id", "NEVER2")}}})}},
		rx.R{Match: sel('M', 1), Handle: []map[string]any{rx.H("echo")}})
	routes = append(routes, rx.R{Match: []map[string]any{rx.M("http", []any{map[string]any{"host": []string{"victim.example"}}})}, Handle: []map[string]any{rx.H("echo")}})
	routes = append(routes, rx.R{Match: []map[string]any{rx.M("openvpn", map[string]any{"modes": []string{"auth"}, "group_key": hex.EncodeToString(mx.OVPNKey.KeyBytes), "ignore_timestamp": true})},
		Handle: []map[string]any{rx.H("echo")}})
	tlsUp := serveTLSNamed(t)
	lns = append(lns, tlsUp)
	routes = append(routes, rx.R{Match: []map[string]any{rx.M("tls", map[string]any{"sni": []string{"c.example.com", "d.example.com"}})},
		Handle: []map[string]any{rx.H("tls"), rx.H("proxy", "upstreams", []map[string]any{{"dial": []string{tlsUp.Addr().String()}, "tls": map[string]any{}}})}})
	// two routes told apart only by the server name in the ClientHello (one shared tls matcher instance each)
	routes = append(routes,
		rx.R{Match: []map[string]any{rx.M("tls", map[string]any{"sni": []string{"a.example.com"}})}, Handle: []map[string]any{rx.H("tls"), rx.H("echo")}},
		rx.R{Match: []map[string]any{rx.M("tls", map[string]any{"sni": []string{"b.example.com"}})}, Handle: []map[string]any{rx.H("tls"), rx.H("verif_take", "id", "TLSB", "k", 1), rx.H("echo")}})
	ctx, err := rx.TLSCtx()
	if err != nil {
		t.Fatalf("tls ctx: %v", err)
	}
	// (matching timeouts are far beyond anything a starved process needs: a connection dropped because its bytes were not
	// looked at in time would read as cross-talk here, and timeouts are C05's subject)
	srv, err := rx.Server(ctx, routes, 90*time.Second)
	if err != nil {
		t.Fatalf("provision: %v", err)
	}
	return srv, func() {
		for _, l := range lns {
			_ = l.Close()
		}
	}
}

type connPlan struct {
	W      int
	Size   int
	Tag    uint64
	Cuts   []int
	Jitter time.Duration
	Digest int
}

func (cp connPlan) stream() []byte {
	w := workloads[cp.W]
	if w.first == 0 {
		// an OpenVPN tls-auth hard reset (TCP framing) signed with the group key, then tagged payload
		ad := l4openvpn.AuthDigestFindByName(ovpnDigests[cp.Digest])
		pkt := mx.OVPNTCP(mx.OVPNAuth(cp.Tag|1, ad, mx.OVPNKey, 0, 1, uint32(time.Now().Unix()), 0, 0, 0))
		return pkt // the matcher requires that nothing follows the packet
	}
	if w.first == 3 {
		return mx.H2Prior("GET", "http", "victim.example", fmt.Sprintf("/%x", cp.Tag), [][2]string{{"x-tag", fmt.Sprint(cp.Tag)}}, 1)
	}
	if w.first == 4 {
		// :method GET, :scheme http, :path /, then the indexed field 62, 63 or 64: the first entries of a dynamic table
		// this connection never filled
		return mx.H2PriorRawBlock([]byte{0x82, 0x86, 0x84, 0xbe + byte(cp.Tag%3)})
	}
	s := hx.Stream(cp.Tag, cp.Size)
	for i, b := range s {
		if b >= 'A' && b <= 'M' || b == 0xFF {
			s[i] = '.'
		}
	}
	if w.first > 6 {
		s[0] = w.first
	}
	return s
}

func genBatch(t *rapid.T, maxConns int) []connPlan {
	n := rapid.IntRange(2, maxConns).Draw(t, "nconns")
	var out []connPlan
	for i := 0; i < n; i++ {
		w := rapid.IntRange(0, len(workloads)-1).Draw(t, "workload")
		size := max(workloads[w].depth, 3) + []int{0, 10, 2040, 2048, 2050, 5000}[rapid.IntRange(0, 5).Draw(t, "extra")]
		cp := connPlan{W: w, Size: size, Tag: rapid.Uint64().Draw(t, "tag"), Jitter: time.Duration(rapid.IntRange(0, 2000).Draw(t, "jitterUs")) * time.Microsecond,
			Digest: rapid.IntRange(0, len(ovpnDigests)-1).Draw(t, "digest")}
		if rapid.Bool().Draw(t, "cut") {
			cp.Cuts = []int{rapid.IntRange(1, size).Draw(t, "cutAt")}
		}
		out = append(out, cp)
	}
	return out
}

func runBatch(t hx.TB, srv *layer4.Server, ln net.Listener, plans []connPlan) {
	type res struct {
		got      []byte
		err      string
		from, to time.Time
	}
	results := make([]res, len(plans))
	var wg sync.WaitGroup
	for i, cp := range plans {
		i, cp := i, cp
		wg.Add(1)
		go func() {
			defer wg.Done()
			time.Sleep(cp.Jitter)
			c, err := hx.Dial("tcp", ln.Addr().String())
			if err != nil {
				results[i].err = err.Error()
				return
			}
			defer c.Close()
			results[i].from = time.Now()
			_ = c.SetDeadline(time.Now().Add(120 * time.Second))
			if w := workloads[cp.W]; w.first == 1 || w.first == 2 || w.first == 5 || w.first == 6 {
				// a TLS client: the plaintext stream goes through the handshake with the route's server name
				tc := tls.Client(c, rx.ClientTLS(tlsNames[w.first], nil))
				if err := tc.Handshake(); err != nil {
					results[i].err = "handshake: " + err.Error()
					results[i].to = time.Now()
					return
				}
				var rd sync.WaitGroup
				rd.Add(1)
				go func() { defer rd.Done(); results[i].got, _ = io.ReadAll(tc) }()
				_, _ = tc.Write(cp.stream())
				_ = tc.CloseWrite()
				rd.Wait()
				results[i].to = time.Now()
				return
			}
			var rd sync.WaitGroup
			rd.Add(1)
			go func() {
				defer rd.Done()
				results[i].got, _ = io.ReadAll(c)
			}()
			for j, seg := range hx.Split(cp.stream(), cp.Cuts) {
				if j > 0 {
					time.Sleep(200 * time.Microsecond)
				}
				if _, err := c.Write(seg); err != nil {
					results[i].err = "write: " + err.Error()
					break
				}
			}
			_ = c.(*net.TCPConn).CloseWrite()
			rd.Wait()
			results[i].to = time.Now()
		}()
	}
	wg.Wait()
	overlapping := 0
	for i, cp := range plans {
		w := workloads[cp.W]
		want := cp.stream()[w.drop:]
		if w.first == 0 {
			want = cp.stream() // timestamps: rebuild would differ; compare with what was sent instead
			want = nil
		}
		if w.first == 4 {
			want = nil // alone, this connection matches no route and is closed
		}
		if w.first == 5 || w.first == 6 {
			want = append([]byte("SNI="+tlsNames[w.first]+"\n"), want...) // the upstream was shown this client's server name
		}
		r := results[i]
		if w.first == 'L' {
			// two peers: the echo of the stream interleaved with the 20 marker bytes of the second peer
			var own []byte
			markers := 0
			for _, b := range r.got {
				if b == 0xFF {
					markers++
				} else {
					own = append(own, b)
				}
			}
			if markers != 20 {
				hx.Fail(t, "C08", "cross-talk/"+w.name, "connection %d (%s): %d marker bytes of the second peer arrived, want 20\n  %s", i, w.name, markers, describe(plans))
				return
			}
			r.got = own
		}
		if w.first == 0 {
			// the echoed packet must be the one this client sent: it carries the client's tag as session id
			if len(r.got) < 11 || hx.Hash(r.got[3:11]) != hx.Hash(sessionBytes(cp.Tag|1)) {
				hx.Fail(t, "C08", "cross-talk/"+w.name, "connection %d (%s): got back %d bytes that are not the packet it sent (session id differs) err=%q\n  %s", i, w.name, len(r.got), r.err, describe(plans))
				return
			}
		} else if !bytes.Equal(r.got, want) {
			hx.Fail(t, "C08", "cross-talk/"+w.name, "connection %d (%s): got back %d bytes, want its own %d bytes; first difference at %d (err=%q) - routed differently or mixed with another connection\n  %s",
				i, w.name, len(r.got), len(want), hx.FirstDiff(r.got, want), r.err, describe(plans))
			return
		}
		for j := range plans {
			if j != i && results[j].from.Before(r.to) && r.from.Before(results[j].to) {
				overlapping++
				break
			}
		}
	}
	used := map[string]bool{}
	for _, cp := range plans {
		used[workloads[cp.W].name] = true
	}
	cl := []string{"C08/batch", fmt.Sprintf("C08/gomaxprocs/%d", runtime.GOMAXPROCS(0))}
	for n := range used {
		cl = append(cl, "C08/workload/"+n)
	}
	if os.Getenv("VERIF_RACE") != "" {
		cl = append(cl, "C08/race-detector-run")
	}
	hx.Class("C08/connections", int64(len(plans)))
	hx.Class("C08/overlapping-connections", int64(overlapping))
	hx.Case(hx.Hash(describe(plans)), overlapping >= 2, cl...)
	if overlapping >= 2 {
		hx.Sample(fmt.Sprint(len(plans) > 20), map[string]any{"connections": len(plans), "overlapping": overlapping, "workloads": keys(used), "gomaxprocs": runtime.GOMAXPROCS(0)})
	}
}

func sessionBytes(v uint64) []byte {
	b := make([]byte, 8)
	for i := 0; i < 8; i++ {
		b[i] = byte(v >> (56 - 8*i))
	}
	return b
}

func keys(m map[string]bool) []string {
	var out []string
	for k := range m {
		out = append(out, k)
	}
	return out
}

func describe(plans []connPlan) string {
	var sb strings.Builder
	fmt.Fprintf(&sb, "%d connections on GOMAXPROCS=%d:", len(plans), runtime.GOMAXPROCS(0))
	for i, cp := range plans {
		if i >= 40 {
			sb.WriteString(" ...")
			break
		}
		fmt.Fprintf(&sb, " #%d %s(%dB,jitter %v)", i, workloads[cp.W].name, cp.Size, cp.Jitter)
	}
	return sb.String()
}

func TestConcurrentConnections(t *testing.T) {
	srv, cleanup := buildServer(t)
	defer cleanup()
	ln, err := hx.Listen("tcp", "127.0.0.1:0")
	if err != nil {
		t.Fatal(err)
	}
	defer ln.Close()
	go func() { _ = srv.VerifServe(ln) }()
	maxConns := 64
	if os.Getenv("VERIF_RACE") != "" {
		maxConns = 24
	}
	rapid.Check(t, func(rt *rapid.T) { runBatch(rt, srv, ln, genBatch(rt, maxConns)) })
}

// TestPerConnectionLimitsAreIndependent: a per-connection throttle must treat
// every connection as it would alone. Each connection sends a stream that fits
// into its own burst; alone it finishes after one short limiter wait (the read
// that meets EOF is charged too: 4096 tokens at 40960/s = 0.1 s). If the
// connections shared one bucket, 16 of them would need more than 3 s.
func TestPerConnectionLimitsAreIndependent(t *testing.T) {
	routes := []rx.R{{Handle: []map[string]any{rx.H("throttle", "read_bytes_per_second", 40960, "read_burst_size", 4096), rx.H("echo")}}}
	srv, err := rx.Server(rx.BareCtx(), routes, 5*time.Second)
	if err != nil {
		t.Fatal(err)
	}
	ln, err := hx.Listen("tcp", "127.0.0.1:0")
	if err != nil {
		t.Fatal(err)
	}
	defer ln.Close()
	go func() { _ = srv.VerifServe(ln) }()
	const n = 16
	attempt := func() (slowest time.Duration, bad string) {
		var wg sync.WaitGroup
		durs := make([]time.Duration, n)
		for i := 0; i < n; i++ {
			i := i
			wg.Add(1)
			go func() {
				defer wg.Done()
				c, err := hx.Dial("tcp", ln.Addr().String())
				if err != nil {
					bad = err.Error()
					return
				}
				defer c.Close()
				_ = c.SetDeadline(time.Now().Add(30 * time.Second))
				start := time.Now()
				s := hx.Stream(uint64(i)+5, 1000)
				_, _ = c.Write(s)
				_ = c.(*net.TCPConn).CloseWrite()
				got, _ := io.ReadAll(c)
				durs[i] = time.Since(start)
				if !bytes.Equal(got, s) {
					bad = fmt.Sprintf("connection %d got back %d bytes, want its own 1000", i, len(got))
				}
			}()
		}
		wg.Wait()
		for _, d := range durs {
			if d > slowest {
				slowest = d
			}
		}
		return
	}
	const bound = 1500 * time.Millisecond // alone: about 0.1 s
	fails := 0
	var worst time.Duration
	for a := 0; a < 3; a++ {
		slowest, bad := attempt()
		if bad != "" {
			hx.Fail(t, "C08", "cross-talk/throttle", "%s", bad)
			return
		}
		worst = max(worst, slowest)
		hx.Case(hx.Hash("throttle-independence", a), true, "C08/per-connection-throttle-independence")
		if slowest <= bound {
			break
		}
		fails++
	}
	if fails == 3 {
		hx.Fail(t, "C08", "throttle-shared-between-connections", "%d connections through a per-connection throttle (burst 4096, rate 40960/s, 1000-byte streams) took up to %v, three times in a row; each alone needs about 0.1 s - the connections slow each other down", n, worst)
	}
	hx.Sample("throttle-independence", map[string]any{"connections": n, "slowest": worst.String(), "bound": bound.String()})
}
