package c08

import (
	"crypto/tls"
	"io"
	"net"
	"path/filepath"
	"time"

	"verifharness/hx"
)

// An upstream that speaks TLS and tells every client which server name its ClientHello carried: "SNI=<name>\n", then an
// echo. The proxy dials it with `"tls": {}` - TLS enabled, nothing customised - which means that the downstream
// client's own hello is adopted (server name, ALPN, versions) and the certificate is verified against the system
// roots, which for this process consist of the harness's upstream certificate.

// The certificate is a fixed, test-only one (testdata/upstream-*.pem, valid for *.example.com); the driver starts
// the test process with SSL_CERT_FILE pointing at it (see bin/checks.py).
var upstreamCert = func() tls.Certificate {
	dir := filepath.Join(hx.VerifDir(), "harness", "c08", "testdata")
	c, err := tls.LoadX509KeyPair(filepath.Join(dir, "upstream-root.pem"), filepath.Join(dir, "upstream-key.pem"))
	if err != nil {
		panic(err)
	}
	return c
}()

func serveTLSNamed(t hx.TB) net.Listener {
	base, err := hx.Listen("tcp", "127.0.0.1:0")
	if err != nil {
		t.Fatalf("listen: %v", err)
	}
	go func() {
		for {
			c, err := base.Accept()
			if err != nil {
				return
			}
			go func() {
				defer c.Close()
				name := "?"
				tc := tls.Server(c, &tls.Config{GetConfigForClient: func(chi *tls.ClientHelloInfo) (*tls.Config, error) {
					name = chi.ServerName
					return &tls.Config{Certificates: []tls.Certificate{upstreamCert}}, nil
				}})
				_ = tc.SetDeadline(time.Now().Add(120 * time.Second))
				if err := tc.Handshake(); err != nil {
					return
				}
				if _, err := tc.Write([]byte("SNI=" + name + "\n")); err != nil {
					return
				}
				_, _ = io.Copy(tc, tc)
				_ = tc.CloseWrite()
			}()
		}
	}()
	return base
}
