package c12

import (
	"bytes"
	"fmt"
	"net"
	"testing"
	"time"

	"github.com/mholt/caddy-l4/layer4"
	"go.uber.org/zap"
	"pgregory.net/rapid"

	"verifharness/hx"
	"verifharness/rx"
)

// Many protocols have the server speak first (SMTP, SSH, FTP, MySQL): the client connects and waits. An upstream
// that expects a PROXY header receives it when the proxy connects to it, whatever the client does; only then does it
// greet, and only after the greeting does the client send. The header must arrive while the client is silent, and what
// follows it is exactly the client's stream.
func TestSendBeforeClientSpeaks(t *testing.T) {
	hx.StartStallMonitor()
	rapid.Check(t, func(rt *rapid.T) {
		version := []string{"v1", "v2"}[rapid.IntRange(0, 1).Draw(rt, "version")]
		payload := hx.Stream(77, rapid.IntRange(0, 3000).Draw(rt, "payload"))
		greeting := []byte("220 upstream ready\r\n")
		bye := []byte("221 bye\r\n")
		// now and then the client takes its time after the greeting (longer than any sensible bound on writing the
		// header): whatever was armed for the header must not outlive it
		lateBy := time.Duration(0)
		if rapid.IntRange(0, 99999).Draw(rt, "lateClient")%400 == 137 { // (rapid favours the ends of a range: a residue is not favoured)
			lateBy = 3300 * time.Millisecond
		}
		ln, err := hx.Listen("tcp", "127.0.0.1:0")
		if err != nil {
			rt.Fatalf("listen: %v", err)
		}
		defer ln.Close()
		type upRes struct {
			hdr    parsedHdr
			hdrOK  bool
			rest   []byte
			waited time.Duration
		}
		resCh := make(chan upRes, 1)
		go func() {
			var r upRes
			c, err := ln.Accept()
			if err != nil {
				resCh <- r
				return
			}
			defer c.Close()
			start := time.Now()
			var got []byte
			buf := make([]byte, 4096)
			// wait for a complete header, then greet
			_ = c.SetReadDeadline(time.Now().Add(4 * time.Second))
			for !r.hdrOK {
				n, err := c.Read(buf)
				got = append(got, buf[:n]...)
				if ph, perr := parseProxyHeader(got); perr == nil && len(got) >= ph.Len {
					r.hdr, r.hdrOK = ph, true
				}
				if err != nil {
					break
				}
			}
			r.waited = time.Since(start)
			_, _ = c.Write(greeting)
			_ = c.SetReadDeadline(time.Now().Add(10 * time.Second))
			for {
				n, err := c.Read(buf)
				got = append(got, buf[:n]...)
				if err != nil {
					break
				}
			}
			if r.hdrOK {
				r.rest = got[r.hdr.Len:]
			} else {
				r.rest = got
			}
			_, _ = c.Write(bye) // the client has finished: a last line for it
			resCh <- r
		}()
		rl, err := rx.Routes(rx.BareCtx(), []rx.R{{Handle: []map[string]any{rx.H("proxy", "proxy_protocol", version, "upstreams", []map[string]any{{"dial": []string{ln.Addr().String()}}})}}})
		if err != nil {
			rt.Fatalf("provision: %v", err)
		}
		h := rx.Compile(rl, time.Second, false)
		under := hx.NewScriptConn(nil, hx.EndSilentReal)
		under.Remote, under.Local = &net.TCPAddr{IP: net.IPv4(203, 0, 113, 50).To4(), Port: 40999}, &net.TCPAddr{IP: net.IPv4(198, 51, 100, 1).To4(), Port: 8443}
		cx := layer4.WrapConnection(under, make([]byte, 0, layer4.VerifPrefetchChunkSize), zap.NewNop())
		began := time.Now()
		done := make(chan error, 1)
		go func() { done <- h.Handle(cx) }()
		// the client waits for the greeting; if none comes within 3 s it gives in and sends anyway, so that the case ends
		greeted := hx.Eventually(3*time.Second, time.Millisecond, func() bool {
			_, _, w := under.Snapshot()
			return bytes.Contains(w, greeting)
		})
		time.Sleep(lateBy)
		under.Push(payload)
		under.SetEnd(hx.EndEOF)
		var herr error
		select {
		case herr = <-done:
		case <-time.After(15 * time.Second):
			hx.Fail(rt, "C12", "send-hang", "the proxy handler did not return within 15 s (send %s, payload %d, greeted=%v)", version, len(payload), greeted)
			return
		}
		r := <-resCh
		desc := fmt.Sprintf("send %s, client silent until greeted, then %d bytes; the upstream had a complete header after %v (greeted=%v); handle error %v", version, len(payload), r.waited, greeted, herr)
		if !greeted || !r.hdrOK {
			if hx.Punctual(began, 40*time.Millisecond, "C12/lateness-verdict-dropped-after-stall") {
				hx.Fail(rt, "C12", "sent-header-withheld", "the upstream received no complete PROXY header while the client was silent (3 s): a server that speaks first and a client that waits for it never get going\n  %s", desc)
			}
			return
		}
		if !bytes.Equal(r.rest, payload) {
			hx.Fail(rt, "C12", "sent-stream", "after the header the upstream received %d bytes, want the client's %d-byte stream (first difference at %d)\n  %s", len(r.rest), len(payload), hx.FirstDiff(r.rest, payload), desc)
			return
		}
		if _, _, w := under.Snapshot(); !bytes.HasSuffix(w, bye) {
			hx.Fail(rt, "C12", "upstream-reply-lost", "the upstream's last line, written after it had seen the end of the client's stream (the client sent %v after the greeting), did not reach the client: it received %q\n  %s", lateBy, w, desc)
			return
		}
		cl := []string{"C12/send", "C12/send-server-speaks-first"}
		if lateBy > 0 {
			cl = append(cl, "C12/send-late-client")
		}
		hx.Case(hx.Hash("speaksfirst", version, len(payload), lateBy), true, cl...)
		return
		hx.Sample("send-first/"+version, map[string]any{"version": version, "payload": len(payload), "header_after": r.waited.String()})
	})
}
