// C12 — PROXY protocol: received headers stripped and honoured, sent headers exact.
package c12

import (
	"bytes"
	"encoding/binary"
	"fmt"
	"io"
	"net"
	"net/netip"
	"strconv"
	"strings"
	"sync"
	"testing"
	"time"

	"go.uber.org/zap"
	"pgregory.net/rapid"

	"github.com/mholt/caddy-l4/layer4"

	"verifharness/hx"
	"verifharness/mx"
	"verifharness/rx"
)

func TestMain(m *testing.M) { hx.Main(m) }

// ---------- received headers ----------

type hdrSpec struct {
	Version int    // 1 or 2
	Kind    string // TCP4 TCP6 UDP4 UDP6 UNKNOWN LOCAL LOCAL+ADDR
	Src     netip.AddrPort
	Dst     netip.AddrPort
	TLVs    int // number of TLVs (v2)
}

func (h hdrSpec) encode() []byte {
	switch {
	case h.Version == 1 && h.Kind == "UNKNOWN":
		return mx.ProxyV1("UNKNOWN", h.Src, h.Dst)
	case h.Version == 1:
		return mx.ProxyV1(h.Kind, h.Src, h.Dst)
	}
	var tlvs []mx.TLV
	for i := 0; i < h.TLVs; i++ {
		tlvs = append(tlvs, mx.TLV{Type: byte(0xE0 + i), Value: bytes.Repeat([]byte{byte(i + 1)}, 3+i*5)})
	}
	fam, trans := byte(1), byte(1)
	if strings.HasSuffix(h.Kind, "6") {
		fam = 2
	}
	if strings.HasPrefix(h.Kind, "UDP") {
		trans = 2
	}
	switch h.Kind {
	case "LOCAL":
		return mx.ProxyV2(0, 0, 0, h.Src, h.Dst, tlvs)
	case "LOCAL+ADDR":
		return mx.ProxyV2(0, 1, 1, h.Src, h.Dst, tlvs)
	}
	return mx.ProxyV2(1, fam, trans, h.Src, h.Dst, tlvs)
}

// declares tells whether the header carries addresses the receiver must adopt.
func (h hdrSpec) declares() bool {
	return h.Kind != "UNKNOWN" && !strings.HasPrefix(h.Kind, "LOCAL")
}

func genAddrPort(t *rapid.T, label string, v6 bool) netip.AddrPort {
	port := uint16(rapid.IntRange(1, 65535).Draw(t, label+"Port"))
	if v6 {
		a := netip.MustParseAddr(fmt.Sprintf("2001:db8:%x::%x", rapid.IntRange(0, 0xffff).Draw(t, label+"Hi"), rapid.IntRange(1, 0xffff).Draw(t, label+"Lo")))
		return netip.AddrPortFrom(a, port)
	}
	return netip.AddrPortFrom(netip.AddrFrom4([4]byte{byte(rapid.IntRange(1, 223).Draw(t, label+"A")), byte(rapid.IntRange(0, 255).Draw(t, label+"B")),
		byte(rapid.IntRange(0, 255).Draw(t, label+"C")), byte(rapid.IntRange(1, 254).Draw(t, label+"D"))}), port)
}

func genHdr(t *rapid.T) hdrSpec {
	h := hdrSpec{Version: rapid.IntRange(1, 2).Draw(t, "version")}
	if h.Version == 1 {
		h.Kind = []string{"TCP4", "TCP6", "UNKNOWN"}[rapid.IntRange(0, 2).Draw(t, "kind1")]
	} else {
		h.Kind = []string{"TCP4", "TCP6", "UDP4", "UDP6", "LOCAL", "LOCAL+ADDR"}[rapid.IntRange(0, 5).Draw(t, "kind2")]
		if rapid.IntRange(0, 4).Draw(t, "withTLV") == 0 {
			h.TLVs = rapid.IntRange(1, 3).Draw(t, "ntlv")
		}
	}
	v6 := strings.HasSuffix(h.Kind, "6")
	h.Src, h.Dst = genAddrPort(t, "src", v6), genAddrPort(t, "dst", v6)
	return h
}

type recvCase struct {
	Hdr       hdrSpec
	Payload   int
	Cuts      []int
	Allow     []string
	PeerIP    string
	PreMatch  bool // a proxy_protocol matcher prefetches before the handler runs
	PreIP     bool // remote_ip / local_ip matchers on the real addresses run before the handler
	peerAllow bool
	// EOFWithData: the read that returns the client's last bytes also reports the end of the stream
	EOFWithData bool
}

func genRecv(t *rapid.T) recvCase {
	rc := recvCase{Hdr: genHdr(t), PreMatch: rapid.Bool().Draw(t, "preMatch"), PreIP: rapid.Bool().Draw(t, "preIP"), EOFWithData: rapid.IntRange(0, 2).Draw(t, "eofWithData") == 0}
	switch rapid.IntRange(0, 4).Draw(t, "payloadKind") {
	case 0:
		rc.Payload = 0
	case 1:
		rc.Payload = rapid.IntRange(4000, 20480).Draw(t, "payloadBig")
	default:
		rc.Payload = rapid.IntRange(1, 600).Draw(t, "payload")
	}
	hl := len(rc.Hdr.encode())
	switch rapid.IntRange(0, 3).Draw(t, "split") {
	case 0: // header and payload coalesced into one read
	case 1: // header split somewhere inside
		rc.Cuts = []int{rapid.IntRange(1, hl-1).Draw(t, "cutInHeader")}
	case 2: // exactly at the header boundary
		rc.Cuts = []int{hl}
	default:
		c := rapid.IntRange(1, hl-1).Draw(t, "cutInHeader2")
		rc.Cuts = []int{c, hl + rapid.IntRange(0, 50).Draw(t, "cutAfter")}
		if rapid.Bool().Draw(t, "byteWise") {
			rc.Cuts = nil
			for i := 1; i < hl+2; i++ {
				rc.Cuts = append(rc.Cuts, i)
			}
		}
	}
	peers := []string{"192.168.7.9", "10.0.0.5", "172.16.3.3", "2001:db8:aaaa::1"}
	rc.PeerIP = peers[rapid.IntRange(0, len(peers)-1).Draw(t, "peer")]
	switch rapid.IntRange(0, 6).Draw(t, "allowKind") {
	case 6:
		// IPv4 ranges written in IPv4-mapped IPv6 notation: package net (whose ParseCIDR / IPNet.Contains define what an
		// allow entry means) treats them as the IPv4 ranges they map
		rc.Allow = [][]string{
			{"::ffff:10.0.0.0/104"},
			{"::ffff:192.168.0.0/112", "2001:db8::/32"},
			{"::ffff:172.16.0.0/108", "::ffff:10.0.0.0/126"},
			{"::ffff:0.0.0.0/96"},
		}[rapid.IntRange(0, 3).Draw(t, "mapped")]
		for _, a := range rc.Allow {
			if _, n, err := net.ParseCIDR(a); err == nil && n.Contains(net.ParseIP(rc.PeerIP)) {
				rc.peerAllow = true
			}
		}
	case 5:
		// nested networks that start at the same address: a narrow one the peer is not in, and a wide one it is in
		// (membership computed below from the list, not from the way it was built)
		rc.Allow = [][]string{
			{"192.168.0.0/24", "192.168.0.0/16", "10.0.0.0/30", "10.0.0.0/8", "2001:db8::/64", "2001:db8::/32"},
			{"10.0.0.0/8", "10.0.0.0/30", "172.16.0.0/24", "172.16.0.0/12"},
			{"192.168.0.0/24", "172.16.0.0/24", "2001:db8::/64"},
		}[rapid.IntRange(0, 2).Draw(t, "nested")]
		peer := netip.MustParseAddr(rc.PeerIP)
		for _, a := range rc.Allow {
			if netip.MustParsePrefix(a).Contains(peer) {
				rc.peerAllow = true
			}
		}
	case 0:
		rc.peerAllow = true // no allow list: everybody
	case 1:
		rc.Allow, rc.peerAllow = []string{"192.168.0.0/16", "10.0.0.0/8", "172.16.0.0/12", "2001:db8::/32"}, true
	case 2:
		rc.Allow = []string{"203.0.113.0/24", "2001:dead::/32"}
	case 3: // overlapping and duplicate entries, the peer inside the narrow one
		rc.Allow, rc.peerAllow = []string{"0.0.0.0/0", rc.PeerIP + suffix(rc.PeerIP), rc.PeerIP + suffix(rc.PeerIP), "::/0"}, true
	default: // only the other family
		if strings.Contains(rc.PeerIP, ":") {
			rc.Allow = []string{"0.0.0.0/0"}
		} else {
			rc.Allow = []string{"::/0"}
		}
	}
	return rc
}

func suffix(ip string) string {
	if strings.Contains(ip, ":") {
		return "/128"
	}
	return "/32"
}

func cidrOf(ap netip.AddrPort) string {
	if ap.Addr().Is4() {
		return ap.Addr().String() + "/32"
	}
	return ap.Addr().String() + "/128"
}

func runRecv(t hx.TB, rc recvCase, class string) {
	hdr := rc.Hdr.encode()
	payload := hx.Stream(uint64(len(hdr))*7919+uint64(rc.Payload), rc.Payload)
	stream := append(append([]byte(nil), hdr...), payload...)
	pp := rx.H("proxy_protocol")
	if len(rc.Allow) > 0 {
		pp["allow"] = rc.Allow
	}
	inner := []rx.R{
		{Match: []map[string]any{rx.M("remote_ip", map[string]any{"ranges": []string{cidrOf(rc.Hdr.Src)}})}, Handle: []map[string]any{rx.H("verif_mark", "id", "REMOTE_IP_MATCHED")}},
		{Match: []map[string]any{rx.M("local_ip", map[string]any{"ranges": []string{cidrOf(rc.Hdr.Dst)}})}, Handle: []map[string]any{rx.H("verif_mark", "id", "LOCAL_IP_MATCHED")}},
	}
	route := rx.R{Handle: []map[string]any{pp, rx.H("subroute", "routes", inner, "matching_timeout", "1s"), rx.H("verif_term", "id", "T")}}
	// v1 UNKNOWN declares no addresses and the property does not say what later matchers then see (the parser in use
	// reports an empty TCP address, on which the ip matchers fail): only the stripping is judged for it
	unspecifiedAddrs := rc.Hdr.Version == 1 && rc.Hdr.Kind == "UNKNOWN"
	if unspecifiedAddrs {
		route.Handle = []map[string]any{pp, rx.H("verif_term", "id", "T")}
	}
	set := map[string]any{}
	if rc.PreMatch {
		set["proxy_protocol"] = map[string]any{}
	}
	if rc.PreIP {
		// the usual "only from the load balancer's range" condition, evaluated on the real peer
		set["remote_ip"] = map[string]any{"ranges": []string{rc.PeerIP}}
		set["local_ip"] = map[string]any{"ranges": []string{"198.51.100.1"}}
	}
	if len(set) > 0 {
		route.Match = []map[string]any{set}
	}
	rl, err := rx.Routes(rx.BareCtx(), []rx.R{route})
	if err != nil {
		t.Fatalf("provision: %v", err)
	}
	h := rx.Compile(rl, time.Second, false)
	end := hx.EndEOF
	if rc.EOFWithData {
		end = hx.EndEOFWithData
	}
	under := hx.NewScriptConn(hx.Split(stream, rc.Cuts), end)
	realRemote := &net.TCPAddr{IP: net.ParseIP(rc.PeerIP), Port: 40123}
	realLocal := &net.TCPAddr{IP: net.ParseIP("198.51.100.1"), Port: 8443}
	under.Remote, under.Local = realRemote, realLocal
	cx := layer4.WrapConnection(under, make([]byte, 0, layer4.VerifPrefetchChunkSize), zap.NewNop())
	tr := rx.NewTrace()
	rx.Bind(cx, tr)
	var herr error
	var pan any
	func() {
		defer func() { pan = recover() }()
		herr = h.Handle(cx)
	}()
	desc := func() string {
		var sb strings.Builder
		fmt.Fprintf(&sb, "  header v%d %s src=%v dst=%v tlvs=%d (%d bytes), payload %d bytes, cuts=%v, allow=%v, peer=%s (allowed=%v), prematch=%v preip=%v\n  handle error: %v\n  trace:",
			rc.Hdr.Version, rc.Hdr.Kind, rc.Hdr.Src, rc.Hdr.Dst, rc.Hdr.TLVs, len(hdr), rc.Payload, rc.Cuts, rc.Allow, rc.PeerIP, rc.peerAllow, rc.PreMatch, rc.PreIP, herr)
		for _, e := range tr.Snapshot() {
			fmt.Fprintf(&sb, " %s(read %d, remote=%s local=%s {remote_addr}=%s {local_addr}=%s)", e.ID, len(e.Data), e.Remote, e.Local, e.ReplRemote, e.ReplLocal)
		}
		return sb.String()
	}
	if pan != nil {
		hx.Fail(t, "C12", "panic", "PROXY protocol handling panicked: %v\n%s", pan, desc())
		return
	}
	evs := tr.Snapshot()
	var term *rx.Event
	marks := map[string]bool{}
	for i := range evs {
		if evs[i].ID == "T" {
			term = &evs[i]
		} else {
			marks[evs[i].ID] = true
		}
	}
	outcome := ""
	switch {
	case !rc.peerAllow:
		// untouched pass-through with the real addresses
		outcome = "passed-through"
		if term == nil || herr != nil {
			hx.Fail(t, "C12", "untrusted-not-passed-through", "a peer outside the allow list must be passed through untouched\n%s", desc())
			return
		}
		if !bytes.Equal(term.Data, stream) {
			hx.Fail(t, "C12", "untrusted-stream-changed", "peer outside the allow list: the next handler read %d bytes (first difference at %d), want header+payload untouched (%d bytes)\n%s", len(term.Data), hx.FirstDiff(term.Data, stream), len(stream), desc())
			return
		}
		if term.Remote != realRemote.String() || term.Local != realLocal.String() {
			hx.Fail(t, "C12", "untrusted-address-adopted", "peer outside the allow list: addresses must stay %v / %v\n%s", realRemote, realLocal, desc())
			return
		}
	case herr != nil:
		// a header the parser does not accept: nothing may be handed on
		outcome = "rejected"
		if term != nil {
			hx.Fail(t, "C12", "rejected-but-handled", "the handler reported %v but the next handler still ran\n%s", herr, desc())
			return
		}
		if rc.Hdr.TLVs == 0 {
			hx.Fail(t, "C12", "valid-header-rejected", "a well-formed v%d %s header from an allowed peer was rejected: %v\n%s", rc.Hdr.Version, rc.Hdr.Kind, herr, desc())
			return
		}
	default:
		outcome = "accepted"
		if term == nil {
			hx.Fail(t, "C12", "next-not-run", "header accepted but the next handler did not run\n%s", desc())
			return
		}
		if !bytes.Equal(term.Data, payload) {
			hx.Fail(t, "C12", "header-not-stripped-exactly", "the next handler read %d bytes, want exactly the %d payload bytes (first difference at %d)\n%s", len(term.Data), len(payload), hx.FirstDiff(term.Data, payload), desc())
			return
		}
		if unspecifiedAddrs {
			break
		}
		wantRemote, wantLocal := realRemote.String(), realLocal.String()
		if rc.Hdr.declares() {
			wantRemote, wantLocal = rc.Hdr.Src.String(), rc.Hdr.Dst.String()
		}
		if term.Remote != wantRemote || term.Local != wantLocal {
			hx.Fail(t, "C12", "handler-addresses", "the next handler sees %s -> %s, want %s -> %s\n%s", term.Remote, term.Local, wantRemote, wantLocal, desc())
			return
		}
		if term.ReplRemote != wantRemote || term.ReplLocal != wantLocal {
			hx.Fail(t, "C12", "placeholder-addresses", "placeholders {l4.conn.remote_addr}/{l4.conn.local_addr} are %s / %s after the handler, want %s / %s\n%s", term.ReplRemote, term.ReplLocal, wantRemote, wantLocal, desc())
			return
		}
		if rc.Hdr.declares() && (!marks["REMOTE_IP_MATCHED"] || !marks["LOCAL_IP_MATCHED"]) {
			hx.Fail(t, "C12", "matcher-addresses", "remote_ip / local_ip matchers after the handler do not see the declared addresses (matched: %v)\n%s", marks, desc())
			return
		}
		if !rc.Hdr.declares() && (marks["REMOTE_IP_MATCHED"] || marks["LOCAL_IP_MATCHED"]) {
			hx.Fail(t, "C12", "matcher-addresses", "%s header: matchers must keep seeing the real addresses (matched: %v)\n%s", rc.Hdr.Kind, marks, desc())
			return
		}
	}
	nontrivial := len(rc.Cuts) > 0 || (rc.Payload > 0 && len(rc.Cuts) == 0) || rc.Hdr.TLVs > 0 || !rc.peerAllow
	hx.Case(hx.Hash("recv", fmt.Sprintf("%+v", rc)), nontrivial, "C12/receive", "C12/"+class, "C12/outcome/"+outcome, fmt.Sprintf("C12/hdr/v%d-%s", rc.Hdr.Version, rc.Hdr.Kind))
	if nontrivial {
		hx.Sample("recv/"+outcome+rc.Hdr.Kind, map[string]any{"header": fmt.Sprintf("v%d %s %v->%v tlvs=%d", rc.Hdr.Version, rc.Hdr.Kind, rc.Hdr.Src, rc.Hdr.Dst, rc.Hdr.TLVs), "payload": rc.Payload, "cuts": rc.Cuts, "allow": rc.Allow, "peer": rc.PeerIP, "outcome": outcome})
	}
}

func TestReceive(t *testing.T) {
	rapid.Check(t, func(rt *rapid.T) { runRecv(rt, genRecv(rt), "generated") })
}

// every split point of every header kind (exhaustive over cut positions for fixed addresses)
func TestReceiveEverySplit(t *testing.T) {
	src4, dst4 := netip.MustParseAddrPort("203.0.113.7:51234"), netip.MustParseAddrPort("198.51.100.9:443")
	src6, dst6 := netip.MustParseAddrPort("[2001:db8::7]:51234"), netip.MustParseAddrPort("[2001:db8::9]:443")
	n := 0
	for _, h := range []hdrSpec{{1, "TCP4", src4, dst4, 0}, {1, "TCP6", src6, dst6, 0}, {1, "UNKNOWN", src4, dst4, 0}, {2, "TCP4", src4, dst4, 0}, {2, "TCP6", src6, dst6, 0},
		{2, "UDP4", src4, dst4, 0}, {2, "UDP6", src6, dst6, 0}, {2, "LOCAL", src4, dst4, 0}} {
		hl := len(h.encode())
		for cut := 1; cut <= hl; cut++ {
			for _, pre := range []bool{false, true} {
				runRecv(t, recvCase{Hdr: h, Payload: 33, Cuts: []int{cut}, PeerIP: "10.0.0.5", peerAllow: true, PreMatch: pre, PreIP: cut%2 == 0}, "every-split")
				n++
			}
		}
	}
	hx.Class("C12/every-split-cases", int64(n))
}

// ---------- sent headers ----------

type parsedHdr struct {
	Version  int
	Src, Dst string // "ip:port"
	Len      int
	UDP      bool
}

// parseProxyHeader is an independent parser written from the HAProxy spec.
func parseProxyHeader(b []byte) (parsedHdr, error) {
	if bytes.HasPrefix(b, []byte("PROXY ")) {
		i := bytes.Index(b, []byte("\r\n"))
		if i < 0 || i > 107 {
			return parsedHdr{}, fmt.Errorf("v1: no CRLF within 107 bytes")
		}
		f := strings.Split(string(b[:i]), " ")
		if len(f) == 2 && f[1] == "UNKNOWN" {
			return parsedHdr{Version: 1, Len: i + 2}, nil
		}
		if len(f) != 6 || (f[1] != "TCP4" && f[1] != "TCP6") {
			return parsedHdr{}, fmt.Errorf("v1: malformed line %q", b[:i])
		}
		sa, err1 := netip.ParseAddr(f[2])
		da, err2 := netip.ParseAddr(f[3])
		sp, err3 := strconv.ParseUint(f[4], 10, 16)
		dp, err4 := strconv.ParseUint(f[5], 10, 16)
		if err1 != nil || err2 != nil || err3 != nil || err4 != nil || sa.Is4() != (f[1] == "TCP4") || da.Is4() != (f[1] == "TCP4") {
			return parsedHdr{}, fmt.Errorf("v1: bad fields in %q", b[:i])
		}
		return parsedHdr{Version: 1, Src: netip.AddrPortFrom(sa, uint16(sp)).String(), Dst: netip.AddrPortFrom(da, uint16(dp)).String(), Len: i + 2}, nil
	}
	if len(b) >= 16 && bytes.Equal(b[:12], mx.ProxyV2Sig) {
		if b[12] != 0x21 {
			return parsedHdr{}, fmt.Errorf("v2: version/command byte %#x, want 0x21 (PROXY)", b[12])
		}
		l := int(binary.BigEndian.Uint16(b[14:16]))
		if len(b) < 16+l {
			return parsedHdr{}, fmt.Errorf("v2: truncated address block")
		}
		a := b[16 : 16+l]
		switch b[13] {
		case 0x11:
			if l < 12 {
				return parsedHdr{}, fmt.Errorf("v2: short TCP4 block")
			}
			return parsedHdr{Version: 2, Len: 16 + l,
				Src: netip.AddrPortFrom(netip.AddrFrom4([4]byte(a[0:4])), binary.BigEndian.Uint16(a[8:10])).String(),
				Dst: netip.AddrPortFrom(netip.AddrFrom4([4]byte(a[4:8])), binary.BigEndian.Uint16(a[10:12])).String()}, nil
		case 0x21:
			if l < 36 {
				return parsedHdr{}, fmt.Errorf("v2: short TCP6 block")
			}
			return parsedHdr{Version: 2, Len: 16 + l,
				Src: netip.AddrPortFrom(netip.AddrFrom16([16]byte(a[0:16])), binary.BigEndian.Uint16(a[32:34])).String(),
				Dst: netip.AddrPortFrom(netip.AddrFrom16([16]byte(a[16:32])), binary.BigEndian.Uint16(a[34:36])).String()}, nil
		case 0x12: // UDP over IPv4 (only when the effective addresses were received as UDP ones)
			if l < 12 {
				return parsedHdr{}, fmt.Errorf("v2: short UDP4 block")
			}
			return parsedHdr{Version: 2, Len: 16 + l, UDP: true,
				Src: netip.AddrPortFrom(netip.AddrFrom4([4]byte(a[0:4])), binary.BigEndian.Uint16(a[8:10])).String(),
				Dst: netip.AddrPortFrom(netip.AddrFrom4([4]byte(a[4:8])), binary.BigEndian.Uint16(a[10:12])).String()}, nil
		case 0x22:
			if l < 36 {
				return parsedHdr{}, fmt.Errorf("v2: short UDP6 block")
			}
			return parsedHdr{Version: 2, Len: 16 + l, UDP: true,
				Src: netip.AddrPortFrom(netip.AddrFrom16([16]byte(a[0:16])), binary.BigEndian.Uint16(a[32:34])).String(),
				Dst: netip.AddrPortFrom(netip.AddrFrom16([16]byte(a[16:32])), binary.BigEndian.Uint16(a[34:36])).String()}, nil
		}
		return parsedHdr{}, fmt.Errorf("v2: family/transport byte %#x", b[13])
	}
	return parsedHdr{}, fmt.Errorf("no PROXY header at offset 0: % x", b[:min(len(b), 16)])
}

// upstream is a harness server that records everything it receives per connection.
type upstream struct {
	ln     net.Listener
	mu     sync.Mutex
	got    [][]byte
	done   chan struct{}
	before int
	count  int
}

func newUpstream(t hx.TB) *upstream {
	ln, err := hx.Listen("tcp", "127.0.0.1:0")
	if err != nil {
		t.Fatalf("listen: %v", err)
	}
	u := &upstream{ln: ln, done: make(chan struct{}, 16)}
	go func() {
		for {
			c, err := ln.Accept()
			if err != nil {
				return
			}
			go func() {
				b, _ := io.ReadAll(c)
				u.mu.Lock()
				// (only the latest stream is needed; a count stands for the earlier ones - a thorough run has hundreds of
				// thousands of them)
				u.count++
				u.got = [][]byte{b}
				u.mu.Unlock()
				_ = c.Close()
				u.done <- struct{}{}
			}()
		}
	}()
	return u
}

type sendCase struct {
	Version    string
	V6         bool
	skipHandle bool
	Payload    int
	Cuts       []int
	Via        *hdrSpec // a proxy_protocol handler received this header first (composition)
	PreMatch   int      // bytes a matcher inspects before the proxy handler runs
	Peers      int      // dial addresses of the one upstream (every peer must get its own header)
}

func runSend(t hx.TB, ups []*upstream, sc sendCase) {
	if sc.Peers < 1 {
		sc.Peers = 1
	}
	for _, up := range ups[:sc.Peers] {
		if !runSendPeer(t, ups[:sc.Peers], up, sc) {
			return
		}
		sc.skipHandle = true
	}
	nontrivial := sc.Via != nil || sc.PreMatch > 0 || len(sc.Cuts) > 0 || sc.Peers > 1
	cl := []string{"C12/send", "C12/send/" + sc.Version, fmt.Sprintf("C12/send-peers/%d", sc.Peers)}
	if sc.Via != nil {
		cl = append(cl, "C12/composition")
	}
	hx.Case(hx.Hash("send", fmt.Sprintf("%+v", sc)), nontrivial, cl...)
	if nontrivial {
		hx.Sample("send/"+sc.Version+fmt.Sprint(sc.Peers), map[string]any{"version": sc.Version, "v6": sc.V6, "payload": sc.Payload, "composition": sc.Via != nil, "peers": sc.Peers})
	}
}

// runSendPeer drives the proxy once (unless already done for this case) and judges what peer `up` received.
func runSendPeer(t hx.TB, all []*upstream, up *upstream, sc sendCase) bool {
	payload := hx.Stream(uint64(sc.Payload)+11, sc.Payload)
	stream := payload
	if sc.Via != nil {
		stream = append(sc.Via.encode(), payload...)
	}
	realRemote := &net.TCPAddr{IP: net.ParseIP("203.0.113.50"), Port: 40999}
	realLocal := &net.TCPAddr{IP: net.ParseIP("198.51.100.1"), Port: 8443}
	if sc.V6 {
		realRemote = &net.TCPAddr{IP: net.ParseIP("2001:db8:1::50"), Port: 40999}
		realLocal = &net.TCPAddr{IP: net.ParseIP("2001:db8:1::1"), Port: 8443}
	}
	var handlers []map[string]any
	if sc.Via != nil {
		handlers = append(handlers, rx.H("proxy_protocol"))
	}
	var dials []string
	for _, u := range all {
		dials = append(dials, u.ln.Addr().String())
	}
	handlers = append(handlers, rx.H("proxy", "proxy_protocol", sc.Version, "upstreams", []map[string]any{{"dial": dials}}))
	route := rx.R{Handle: handlers}
	if sc.PreMatch > 0 && sc.PreMatch <= len(stream) {
		route.Match = []map[string]any{rx.M("regexp", map[string]any{"pattern": "(?s).", "count": sc.PreMatch})}
	}
	rl, err := rx.Routes(rx.BareCtx(), []rx.R{route})
	if err != nil {
		t.Fatalf("provision: %v", err)
	}
	h := rx.Compile(rl, time.Second, false)
	under := hx.NewScriptConn(hx.Split(stream, sc.Cuts), hx.EndEOF)
	under.Remote, under.Local = realRemote, realLocal
	cx := layer4.WrapConnection(under, make([]byte, 0, layer4.VerifPrefetchChunkSize), zap.NewNop())
	var herr error
	if !sc.skipHandle {
		for _, u := range all {
			u.mu.Lock()
			u.before = u.count
			u.mu.Unlock()
		}
		herr = h.Handle(cx)
		for _, u := range all {
			select {
			case <-u.done:
			case <-time.After(5 * time.Second):
			}
		}
	}
	up.mu.Lock()
	var got []byte
	n := up.count - up.before
	if n > 0 {
		got = up.got[len(up.got)-1]
	}
	up.mu.Unlock()
	desc := fmt.Sprintf("  send %s, v6=%v, payload %d, cuts %v, via=%v, prematch=%d; handle error %v; upstream got %d bytes: % x...", sc.Version, sc.V6, sc.Payload, sc.Cuts, sc.Via != nil, sc.PreMatch, herr, len(got), got[:min(len(got), 60)])
	if herr != nil || n != 1 {
		hx.Fail(t, "C12", "send-failed", "proxying failed (err=%v, upstream connections=%d)\n%s", herr, n, desc)
		return false
	}
	ph, err := parseProxyHeader(got)
	if err != nil {
		hx.Fail(t, "C12", "sent-header-malformed", "the upstream did not receive a well-formed PROXY header: %v\n%s", err, desc)
		return false
	}
	wantV := 1
	if sc.Version == "v2" {
		wantV = 2
	}
	if ph.Version != wantV {
		hx.Fail(t, "C12", "sent-header-version", "configured %s but a v%d header was sent\n%s", sc.Version, ph.Version, desc)
		return false
	}
	wantSrc, wantDst := unmap(realRemote.AddrPort()), unmap(realLocal.AddrPort())
	if sc.Via != nil && sc.Via.declares() {
		wantSrc, wantDst = sc.Via.Src.String(), sc.Via.Dst.String()
	}
	wantUDP := sc.Via != nil && strings.HasPrefix(sc.Via.Kind, "UDP")
	if ph.UDP != wantUDP {
		hx.Fail(t, "C12", "sent-header-transport", "the sent header says datagram=%v, the effective addresses are datagram=%v\n%s", ph.UDP, wantUDP, desc)
		return false
	}
	if ph.Src != wantSrc || ph.Dst != wantDst {
		hx.Fail(t, "C12", "sent-header-addresses", "the sent header carries %s -> %s, the client's effective addresses are %s -> %s\n%s", ph.Src, ph.Dst, wantSrc, wantDst, desc)
		return false
	}
	if rest := got[ph.Len:]; !bytes.Equal(rest, payload) {
		hx.Fail(t, "C12", "sent-stream", "after the header the upstream received %d bytes, want the client's %d-byte stream (first difference at %d; a second header?)\n%s", len(rest), len(payload), hx.FirstDiff(rest, payload), desc)
		return false
	}
	return true
}

func unmap(ap netip.AddrPort) string {
	return netip.AddrPortFrom(ap.Addr().Unmap(), ap.Port()).String()
}

func TestSend(t *testing.T) {
	ups := []*upstream{newUpstream(t), newUpstream(t), newUpstream(t)}
	for _, u := range ups {
		defer u.ln.Close()
	}
	rapid.Check(t, func(rt *rapid.T) {
		sc := sendCase{Version: []string{"v1", "v2"}[rapid.IntRange(0, 1).Draw(rt, "version")], V6: rapid.Bool().Draw(rt, "v6"), Peers: rapid.IntRange(1, 3).Draw(rt, "peers")}
		sc.Payload = rapid.IntRange(0, 9000).Draw(rt, "payload")
		if rapid.Bool().Draw(rt, "composition") {
			h := genHdr(rt)
			h.TLVs = 0
			// v1 UNKNOWN leaves the effective addresses unspecified (see runRecv) and v1 cannot carry UDP addresses:
			// those combinations are not judged
			for (h.Version == 1 && h.Kind == "UNKNOWN") || (sc.Version == "v1" && strings.HasPrefix(h.Kind, "UDP")) {
				h = hdrSpec{Version: 2, Kind: "TCP4", Src: h.Src, Dst: h.Dst}
				if !h.Src.Addr().Is4() {
					h.Kind = "TCP6"
				}
			}
			sc.Via = &h
		}
		total := sc.Payload
		if sc.Via != nil {
			total += len(sc.Via.encode())
		}
		if total > 1 && rapid.Bool().Draw(rt, "cut") {
			sc.Cuts = []int{rapid.IntRange(1, total-1).Draw(rt, "cutAt")}
		}
		if sc.Via == nil && rapid.Bool().Draw(rt, "prematch") {
			sc.PreMatch = rapid.IntRange(1, max(1, min(total, 5000))).Draw(rt, "prematchDepth")
		}
		runSend(rt, ups, sc)
	})
}
