// C16 — the SOCKS5 handler serves only enabled commands and only authenticated clients.
package c16

import (
	"bytes"
	"encoding/hex"
	"fmt"
	"net"
	"os"
	"sort"
	"strings"
	"sync/atomic"
	"testing"
	"time"

	"go.uber.org/zap"
	"pgregory.net/rapid"

	"github.com/mholt/caddy-l4/layer4"

	"verifharness/hx"
	"verifharness/rx"
)

func TestMain(m *testing.M) {
	os.Setenv("VERIF_C16_USER", "envuser")
	os.Setenv("VERIF_C16_PASS", "envpass")
	os.Setenv("VERIF_C16_CMD", "connect")
	hx.Main(m)
}

type cfg struct {
	Commands []string          // as configured (any case, placeholders); nil = default
	Creds    map[string]string // as configured
}

// what the documentation says the configuration means
func (c cfg) enabled() map[byte]bool {
	en := map[byte]bool{}
	if len(c.Commands) == 0 {
		en[1], en[3] = true, true // default: CONNECT and ASSOCIATE
		return en
	}
	for _, s := range c.Commands {
		switch strings.ToUpper(resolve(s)) {
		case "CONNECT":
			en[1] = true
		case "BIND":
			en[2] = true
		case "ASSOCIATE":
			en[3] = true
		}
	}
	return en
}

func resolve(s string) string {
	s = strings.ReplaceAll(s, "{env.VERIF_C16_USER}", "envuser")
	s = strings.ReplaceAll(s, "{env.VERIF_C16_PASS}", "envpass")
	s = strings.ReplaceAll(s, "{env.VERIF_C16_CMD}", "connect")
	s = strings.ReplaceAll(s, "{env.VERIF_C16_UNSET}", "")
	return s
}

// pairs returns the username/password pairs a client may authenticate with
// (entries whose user name is empty after placeholder replacement are unusable, and so are entries longer than the
// one-octet length fields of the sub-negotiation can express).
func (c cfg) pairs() map[string]string {
	out := map[string]string{}
	for u, p := range c.Creds {
		if ru, rp := resolve(u), resolve(p); ru != "" && len(ru) <= 255 && len(rp) <= 255 {
			out[ru] = rp
		}
	}
	return out
}

type session struct {
	Methods  []byte
	Auth     bool
	User     string
	Pass     string
	Cmd      byte
	Atyp     int // 0 ipv4, 1 domain, 2 ipv6, 3 garbage
	Ver      byte
	Truncate int // >0: cut the script after this many bytes
}

func (s session) bytes(dstPort uint16) []byte {
	out := []byte{s.Ver, byte(len(s.Methods))}
	out = append(out, s.Methods...)
	if s.Auth {
		out = append(out, 1, byte(len(s.User)))
		out = append(out, s.User...)
		out = append(out, byte(len(s.Pass)))
		out = append(out, s.Pass...)
	}
	switch s.Atyp {
	case 0:
		out = append(out, 5, s.Cmd, 0, 1, 127, 0, 0, 1)
	case 1:
		out = append(out, 5, s.Cmd, 0, 3, 9)
		out = append(out, "localhost"...)
	case 2:
		out = append(out, 5, s.Cmd, 0, 4)
		out = append(out, make([]byte, 15)...)
		out = append(out, 1)
	default:
		out = append(out, 5, s.Cmd, 0, 9, 1, 2, 3)
	}
	out = append(out, byte(dstPort>>8), byte(dstPort))
	if s.Truncate > 0 && s.Truncate < len(out) {
		out = out[:s.Truncate]
	}
	return out
}

var cmdSpellings = map[byte][]string{1: {"CONNECT", "connect", "Connect", "{env.VERIF_C16_CMD}"}, 2: {"BIND", "bind"}, 3: {"ASSOCIATE", "associate", "aSsOcIaTe"}}

func genCfg(t *rapid.T) cfg {
	var c cfg
	if rapid.IntRange(0, 3).Draw(t, "defaultCommands") != 0 {
		for _, k := range []byte{1, 2, 3} {
			if rapid.Bool().Draw(t, fmt.Sprintf("cmd%d", k)) {
				sp := cmdSpellings[k]
				c.Commands = append(c.Commands, sp[rapid.IntRange(0, len(sp)-1).Draw(t, "spelling")])
			}
		}
		// an entry that names no command (empty, or a placeholder that resolves to nothing) enables nothing;
		// the handler may refuse to load such a configuration, it must not fall back to its defaults
		if rapid.IntRange(0, 3).Draw(t, "emptyCommand") == 0 {
			c.Commands = append(c.Commands, []string{"", "{env.VERIF_C16_UNSET}"}[rapid.IntRange(0, 1).Draw(t, "emptySpelling")])
		}
	}
	switch rapid.IntRange(0, 9).Draw(t, "credKind") {
	case 9:
		// longer than a client can present (the length fields of the sub-negotiation are one octet): such an entry
		// can never be used - in particular not with the part of it that fits
		c.Creds = map[string]string{"frank": strings.Repeat("p", 300), strings.Repeat("u", 260): "pw", "grace": strings.Repeat("q", 255)}
	case 8:
		c.Creds = map[string]string{"{env.VERIF_C16_USER}": "{env.VERIF_C16_PASS}"}
	case 6:
		// names and passwords are compared as configured: surrounding white space is part of them
		c.Creds = map[string]string{" carol": "pw", "dave": " s3cret ", "erin": "hunter2\n"}
	case 7:
		// ... and so is a colon: user name and password are two separate strings
		c.Creds = map[string]string{"ops:backup": "s3cret", "alice": "pa:ss"}
	case 0, 1:
	case 2:
		c.Creds = map[string]string{"bob": "secret"}
	case 3:
		c.Creds = map[string]string{"bob": "secret", "alice": "", "{env.VERIF_C16_USER}": "{env.VERIF_C16_PASS}"}
	case 4:
		c.Creds = map[string]string{"": "nopass"} // empty user name: nobody can authenticate
	default:
		c.Creds = map[string]string{"{env.VERIF_C16_UNSET}": "x", "carol": "{env.VERIF_C16_UNSET}"}
	}
	return c
}

func genSession(t *rapid.T, c cfg) session {
	s := session{Ver: 5, Cmd: []byte{1, 1, 1, 2, 3, 0, 9, 0xff}[rapid.IntRange(0, 7).Draw(t, "cmd")], Atyp: []int{0, 0, 1, 2, 3}[rapid.IntRange(0, 4).Draw(t, "atyp")]}
	if rapid.IntRange(0, 9).Draw(t, "badVer") == 0 {
		s.Ver = 4
	}
	switch rapid.IntRange(0, 5).Draw(t, "methods") {
	case 0:
		s.Methods = []byte{0}
	case 1:
		s.Methods = []byte{2}
	case 2:
		s.Methods = []byte{0, 2}
	case 3:
		s.Methods = []byte{2, 0}
	case 4:
		s.Methods = nil
	default:
		s.Methods = rapid.SliceOfN(rapid.Byte(), 1, 5).Draw(t, "rawMethods")
	}
	s.Auth = rapid.IntRange(0, 2).Draw(t, "sendAuth") != 0
	users := []string{"bob", "alice", "envuser", "carol", "", "mallory", "{env.VERIF_C16_USER}"}
	passes := []string{"secret", "", "envpass", "nopass", "x", "wrong", "{env.VERIF_C16_PASS}"}
	s.User = users[rapid.IntRange(0, len(users)-1).Draw(t, "user")]
	s.Pass = passes[rapid.IntRange(0, len(passes)-1).Draw(t, "pass")]
	switch rapid.IntRange(0, 5).Draw(t, "pairKind") {
	case 5:
		// a configured user name (placeholders resolved) with no password, an earlier value of it, or somebody else's
		if len(c.Creds) > 0 {
			us := make([]string, 0, len(c.Creds))
			for u := range c.Creds {
				us = append(us, u)
			}
			sort.Strings(us)
			s.User = resolve(us[rapid.IntRange(0, len(us)-1).Draw(t, "knownUser")])
			s.Pass = []string{"", "oldpass", resolve(c.Creds[us[rapid.IntRange(0, len(us)-1).Draw(t, "otherUser")]])}[rapid.IntRange(0, 2).Draw(t, "whichPass")]
			s.Auth = true
			if !bytes.Contains(s.Methods, []byte{2}) {
				s.Methods = append(s.Methods, 2)
			}
		}
	case 4:
		// something close to a configured entry: white space trimmed, or the same characters split elsewhere
		if len(c.Creds) > 0 {
			us := make([]string, 0, len(c.Creds))
			for u := range c.Creds {
				us = append(us, u)
			}
			sort.Strings(us)
			u := us[rapid.IntRange(0, len(us)-1).Draw(t, "nearUser")]
			ru, rp := resolve(u), resolve(c.Creds[u])
			if len(ru) > 255 || len(rp) > 255 {
				s.User, s.Pass = ru[:min(len(ru), 255)], rp[:min(len(rp), 255)]
			} else if rapid.Bool().Draw(t, "trimmed") {
				s.User, s.Pass = strings.TrimSpace(ru), strings.TrimSpace(rp)
			} else if joined := ru + ":" + rp; strings.Count(joined, ":") > 1 {
				var cuts []int
				for i, ch := range joined {
					if ch == ':' && i != len(ru) {
						cuts = append(cuts, i)
					}
				}
				at := cuts[rapid.IntRange(0, len(cuts)-1).Draw(t, "splitAt")]
				s.User, s.Pass = joined[:at], joined[at+1:]
			}
			s.Auth = true
			if !bytes.Contains(s.Methods, []byte{2}) {
				s.Methods = append(s.Methods, 2)
			}
		}
	case 0:
		// a pair the configuration accepts
		if ps := c.pairs(); len(ps) > 0 {
			us := make([]string, 0, len(ps))
			for u := range ps {
				us = append(us, u)
			}
			sort.Strings(us)
			s.User = us[rapid.IntRange(0, len(us)-1).Draw(t, "goodUser")]
			s.Pass = ps[s.User]
		}
	case 1:
		// an entry exactly as configured, placeholders resolved - also the entries nobody can use (empty name)
		if len(c.Creds) > 0 {
			us := make([]string, 0, len(c.Creds))
			for u := range c.Creds {
				us = append(us, u)
			}
			sort.Strings(us)
			u := us[rapid.IntRange(0, len(us)-1).Draw(t, "rawUser")]
			s.User, s.Pass = resolve(u), resolve(c.Creds[u])
			s.Auth = true
			if !bytes.Contains(s.Methods, []byte{2}) {
				s.Methods = append(s.Methods, 2)
			}
		}
	}
	if rapid.IntRange(0, 7).Draw(t, "truncate") == 0 {
		s.Truncate = rapid.IntRange(1, 30).Draw(t, "truncateAt")
	}
	return s
}

type target struct {
	ln      net.Listener
	accepts atomic.Int64
}

func newTarget(t hx.TB) *target {
	ln, err := hx.Listen("tcp", "127.0.0.1:0")
	if err != nil {
		t.Fatalf("listen: %v", err)
	}
	tg := &target{ln: ln}
	go func() {
		for {
			c, err := ln.Accept()
			if err != nil {
				return
			}
			tg.accepts.Add(1)
			_, _ = c.Write([]byte("TARGET"))
			_ = c.Close()
		}
	}()
	return tg
}

// udpSockets counts the UDP sockets owned by this process (other processes on
// the machine, e.g. parallel shards, must not be counted): socket inodes of
// /proc/self/fd that appear in the UDP tables.
func udpSockets() int {
	mine := map[string]bool{}
	ents, _ := os.ReadDir("/proc/self/fd")
	for _, e := range ents {
		if l, err := os.Readlink("/proc/self/fd/" + e.Name()); err == nil && strings.HasPrefix(l, "socket:[") {
			mine[strings.TrimSuffix(strings.TrimPrefix(l, "socket:["), "]")] = true
		}
	}
	n := 0
	for _, f := range []string{"/proc/self/net/udp", "/proc/self/net/udp6"} {
		b, err := os.ReadFile(f)
		if err != nil {
			continue
		}
		for i, line := range strings.Split(string(b), "\n") {
			fs := strings.Fields(line)
			if i > 0 && len(fs) > 9 && mine[fs[9]] {
				n++
			}
		}
	}
	return n
}

// parse the server's replies: method selection, optional auth status, request reply
func parseReplies(b []byte, sentAuth bool) (method int, authStatus int, rep int) {
	method, authStatus, rep = -1, -1, -1
	if len(b) < 2 || b[0] != 5 {
		return
	}
	method = int(b[1])
	b = b[2:]
	if method == 2 {
		if len(b) < 2 {
			return
		}
		authStatus = int(b[1])
		b = b[2:]
	}
	if len(b) >= 2 && b[0] == 5 {
		rep = int(b[1])
	}
	return
}

func handlerJSON(c cfg) map[string]any {
	hm := rx.H("socks5")
	if c.Commands != nil {
		hm["commands"] = c.Commands
	}
	if c.Creds != nil {
		hm["credentials"] = c.Creds
	}
	return hm
}

// runSession serves one client session with a handler configured as c. The
// process may hold other socks5 handlers (other routes, other servers, an
// earlier or later configuration): before lists those provisioned before the
// handler under test and after those provisioned after it. What they enable
// is their business; the handler under test answers for c alone.
func runSession(t hx.TB, ln net.Listener, tg *target, c cfg, before2, after2 []cfg, s session, class string) {
	if len(before2) > 0 && len(c.Creds) > 0 {
		// a configuration reload after secrets were rotated: the very same configuration text was provisioned earlier,
		// when the placeholders had other values, and that instance is still around
		os.Setenv("VERIF_C16_PASS", "oldpass")
		os.Setenv("VERIF_C16_CMD", "bind")
		_, _ = rx.Routes(rx.BareCtx(), []rx.R{{Handle: []map[string]any{handlerJSON(c)}}})
		os.Setenv("VERIF_C16_PASS", "envpass")
		os.Setenv("VERIF_C16_CMD", "connect")
	}
	for _, o := range before2 {
		_, _ = rx.Routes(rx.BareCtx(), []rx.R{{Handle: []map[string]any{handlerJSON(o)}}})
	}
	rl, err := rx.Routes(rx.BareCtx(), []rx.R{{Handle: []map[string]any{handlerJSON(c)}}})
	for _, o := range after2 {
		_, _ = rx.Routes(rx.BareCtx(), []rx.R{{Handle: []map[string]any{handlerJSON(o)}}})
	}
	if len(before2)+len(after2) > 0 {
		class += "+siblings"
	}
	if err != nil {
		// a configuration the handler refuses to load serves nobody: fine
		hx.Case(hx.Hash("cfg-rejected", fmt.Sprint(c)), false, "C16/config-rejected")
		return
	}
	h := rx.Compile(rl, time.Second, false)
	before := tg.accepts.Load()
	udpBefore := udpSockets()
	done := make(chan struct{})
	go func() {
		defer close(done)
		sc, err := ln.Accept()
		if err != nil {
			return
		}
		defer sc.Close()
		cx := layer4.WrapConnection(sc, make([]byte, 0, 2048), zap.NewNop())
		func() {
			defer func() { _ = recover() }()
			_ = h.Handle(cx)
		}()
	}()
	cli, err := hx.Dial("tcp", ln.Addr().String())
	if err != nil {
		t.Fatalf("dial: %v", err)
	}
	port := uint16(tg.ln.Addr().(*net.TCPAddr).Port)
	if full := (session{Methods: s.Methods, Auth: s.Auth, User: s.User, Pass: s.Pass, Cmd: s.Cmd, Atyp: s.Atyp, Ver: s.Ver}).bytes(port); s.Truncate >= len(full) {
		s.Truncate = 0 // nothing is actually cut off
	}
	script := s.bytes(port)
	_, _ = cli.Write(script)
	var reply []byte
	buf := make([]byte, 512)
	_ = cli.SetReadDeadline(time.Now().Add(250 * time.Millisecond))
	for {
		n, err := cli.Read(buf)
		reply = append(reply, buf[:n]...)
		if err != nil {
			break
		}
		// once the request reply arrived there is nothing more to learn; the relayed TARGET banner may follow
		if _, _, rep := parseReplies(reply, s.Auth); rep >= 0 {
			_ = cli.SetReadDeadline(time.Now().Add(60 * time.Millisecond))
		}
	}
	_ = cli.Close()
	select {
	case <-done:
	case <-time.After(12 * time.Second):
		hx.Fail(t, "C16", "hang", "handler did not return within 12 s after the client closed; cfg=%+v session=%+v", c, s)
		return
	}
	time.Sleep(2 * time.Millisecond)
	accepted := tg.accepts.Load() - before
	method, authStatus, rep := parseReplies(reply, s.Auth)

	// the reference predicate, from the handler's documentation
	pairs := c.pairs()
	offered := func(m byte) bool {
		for _, x := range s.Methods {
			if x == m {
				return true
			}
		}
		return false
	}
	authOK := false
	if len(c.Creds) == 0 {
		authOK = s.Ver == 5 && offered(0)
	} else if p, ok := pairs[s.User]; ok && s.Ver == 5 && offered(2) && s.Auth && p == s.Pass && s.Truncate == 0 {
		authOK = true
	}
	permitted := authOK && c.enabled()[s.Cmd]
	desc := fmt.Sprintf("config commands=%q credentials=%q (other socks5 handlers in the process: before=%+v after=%+v); client sent %s (ver=%d methods=%v auth=%v user=%q pass=%q cmd=%d atyp=%d); server replied %s (method=%d auth-status=%d rep=%d); target accepted %d connection(s)",
		c.Commands, c.Creds, before2, after2, hex.EncodeToString(script), s.Ver, s.Methods, s.Auth, s.User, s.Pass, s.Cmd, s.Atyp, hex.EncodeToString(reply[:min(len(reply), 40)]), method, authStatus, rep, accepted)
	if !permitted {
		if accepted > 0 {
			hx.Fail(t, "C16", "outbound-connection", "an outbound connection was made for a request that must be refused\n  %s", desc)
			return
		}
		if rep == 0 {
			hx.Fail(t, "C16", "success-reply", "the handler answered success (REP=0) to a request that must be refused\n  %s", desc)
			return
		}
		if d := udpSockets() - udpBefore; d > 0 {
			hx.Fail(t, "C16", "udp-listener", "a UDP socket was left behind by a request that must be refused (+%d)\n  %s", d, desc)
			return
		}
		if len(c.Creds) > 0 && !authOK && method == 0 {
			hx.Fail(t, "C16", "noauth-accepted", "credentials are configured but the handler selected the NO AUTH method\n  %s", desc)
			return
		}
	}
	served := accepted > 0 || rep == 0
	nontrivial := len(c.Creds) > 0 && s.Truncate == 0 && s.Ver == 5 && s.Atyp != 3 && len(s.Methods) > 0
	out := "refused"
	if served {
		out = "served"
	}
	perm := "must-refuse"
	if permitted {
		perm = "may-serve"
	}
	hx.Case(hx.Hash(fmt.Sprint(c), fmt.Sprint(s)), nontrivial, "C16/"+class, "C16/"+out, "C16/"+perm, fmt.Sprintf("C16/cmd/%d", s.Cmd))
	if nontrivial {
		hx.Sample(out+perm, map[string]any{"commands": c.Commands, "credentials": c.Creds, "session": fmt.Sprintf("%+v", s), "permitted_by_config": permitted, "outcome": out, "rep": rep})
	}
}

func TestSessions(t *testing.T) {
	ln, err := hx.Listen("tcp", "127.0.0.1:0")
	if err != nil {
		t.Fatal(err)
	}
	defer ln.Close()
	tg := newTarget(t)
	defer tg.ln.Close()
	rapid.Check(t, func(rt *rapid.T) {
		c := genCfg(rt)
		var before, after []cfg
		if rapid.IntRange(0, 2).Draw(rt, "siblings") == 0 {
			before = rapid.SliceOfN(rapid.Custom(genCfg), 0, 2).Draw(rt, "before")
			after = rapid.SliceOfN(rapid.Custom(genCfg), 0, 2).Draw(rt, "after")
		}
		sess := genSession(rt, c)
		if _, rotating := c.Creds["{env.VERIF_C16_USER}"]; rotating && len(before) > 0 && rapid.Bool().Draw(rt, "presentsRotatedOutSecret") {
			// the client still has the password from before the rotation
			sess.Ver, sess.Auth, sess.User, sess.Pass, sess.Truncate = 5, true, "envuser", "oldpass", 0
			sess.Methods = []byte{2}
		}
		runSession(rt, ln, tg, c, before, after, sess, "generated")
	})
}
