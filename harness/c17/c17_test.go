// C17 — throttled reads never exceed burst + rate x time; the stream stays intact.
package c17

import (
	"bytes"
	"context"
	"fmt"
	"math"
	"sync"
	"testing"
	"time"

	"go.uber.org/zap"
	"pgregory.net/rapid"

	"github.com/mholt/caddy-l4/layer4"

	"verifharness/hx"
	"verifharness/rx"
)

func TestMain(m *testing.M) { hx.Main(m) }

type connSpec struct {
	Size    int
	ReadBuf int
	// Trickle > 0: the client delivers TrickleBytes every Trickle (else everything is available at once)
	Trickle      time.Duration
	TrickleBytes int
}

type tcase struct {
	Rate       float64
	Burst      int // 0: left to the handler's default (rate+1)
	TotalRate  float64
	TotalBurst int
	Latency    time.Duration
	Conns      []connSpec
	// EOFWithData: the client's end of stream is reported by the read that returns its last bytes
	EOFWithData bool
	// ReadDeadline > 0: the handler behind the throttle arms a read deadline that far ahead before it reads (as the
	// matching of a following route does, or any handler with read timeouts)
	ReadDeadline time.Duration
	// BurstOnly: a burst size is configured and the rate is left at zero, so burst + 0 x T = burst bytes may ever pass
	BurstOnly bool
	// OwnRoute: the throttle handler is the last handler of a route of its own; the handler that reads the connection
	// sits in the route after it (a throttled connection stays throttled for whoever reads it next)
	OwnRoute bool
}

// routesFor lays out the handlers: all in one route, or the reading handler in a later route.
func (tc tcase) routesFor(before []map[string]any, th, reader map[string]any) []rx.R {
	if tc.OwnRoute {
		return []rx.R{{Handle: append(append([]map[string]any(nil), before...), th)}, {Handle: []map[string]any{reader}}}
	}
	return []rx.R{{Handle: append(append([]map[string]any(nil), before...), th, reader)}}
}

func (tc tcase) effBurst() int {
	if tc.Rate > 0 && tc.Burst == 0 {
		return int(tc.Rate) + 1
	}
	return tc.Burst
}

func (tc tcase) effTotalBurst() int {
	if tc.TotalRate > 0 && tc.TotalBurst == 0 {
		return int(tc.TotalRate) + 1
	}
	return tc.TotalBurst
}

type point struct {
	at  time.Time
	cum int
}

type connResult struct {
	firstEntry time.Time
	points     []point
	data       []byte
	stream     []byte
	markAt     time.Time
	err        string
}

func logRate(t *rapid.T, label string) float64 {
	// log-uniform 1 KB/s .. 1 MB/s
	return math.Floor(math.Pow(10, rapid.Float64Range(3, 6).Draw(t, label)))
}

// cost is the number of limiter tokens a connection spends: the throttle charges every Read (the final one that
// meets EOF included) with min(len(buffer), bursts) tokens, whatever the number of bytes it then gets.
func cost(cs connSpec, batchCap int) int {
	batch := cs.ReadBuf
	if batchCap > 0 && batch > batchCap {
		batch = batchCap
	}
	per := batch // bytes obtained per read
	if cs.Trickle > 0 && cs.TrickleBytes < per {
		per = cs.TrickleBytes
	}
	reads := (cs.Size+per-1)/per + 1
	return reads * batch
}

func genBurstOnly(t *rapid.T) tcase {
	tc := tcase{BurstOnly: true, OwnRoute: rapid.IntRange(0, 3).Draw(t, "ownRoute") == 0}
	which := rapid.IntRange(0, 2).Draw(t, "burstOnlyKind") // 0 per-connection, 1 total, 2 both
	bursts := []int{1, 7, 100, 1500, 4096}
	if which != 1 {
		tc.Burst = bursts[rapid.IntRange(0, 4).Draw(t, "burst")]
	}
	if which != 0 {
		tc.TotalBurst = bursts[rapid.IntRange(0, 4).Draw(t, "totalBurst")]
	}
	n := rapid.IntRange(1, 4).Draw(t, "nconns")
	for i := 0; i < n; i++ {
		tc.Conns = append(tc.Conns, connSpec{
			Size:    rapid.IntRange(0, 3*max(tc.Burst, tc.TotalBurst)+10).Draw(t, "size"),
			ReadBuf: []int{1, 2, 100, 1500, 4096}[rapid.IntRange(0, 4).Draw(t, "readBuf")],
		})
	}
	return tc
}

func genCase(t *rapid.T) tcase {
	var tc tcase
	if rapid.IntRange(0, 9).Draw(t, "burstOnly") == 0 {
		return genBurstOnly(t)
	}
	kind := rapid.IntRange(0, 3).Draw(t, "limitKind") // 0 per-connection, 1 total, 2 both, 3 latency only
	if kind == 0 || kind == 2 {
		tc.Rate = logRate(t, "rate")
		if rapid.IntRange(0, 4).Draw(t, "defaultBurst") != 0 {
			tc.Burst = []int{1, 7, 100, 1500, 4096, 65536}[rapid.IntRange(0, 5).Draw(t, "burst")]
		}
	}
	if kind == 1 || kind == 2 {
		tc.TotalRate = logRate(t, "totalRate")
		if rapid.IntRange(0, 4).Draw(t, "defaultTotalBurst") != 0 {
			tc.TotalBurst = []int{1, 64, 1500, 8192, 65536}[rapid.IntRange(0, 4).Draw(t, "totalBurst")]
		}
	}
	if kind == 3 || rapid.IntRange(0, 3).Draw(t, "withLatency") == 0 {
		tc.Latency = time.Duration(rapid.IntRange(1, 200).Draw(t, "latencyMs")) * time.Millisecond
	}
	tc.OwnRoute = rapid.IntRange(0, 3).Draw(t, "ownRoute") == 0
	n := 1
	if kind != 0 && rapid.Bool().Draw(t, "many") {
		n = rapid.IntRange(2, 8).Draw(t, "nconns")
	}
	// the slowest applicable limiter decides how much can pass in the time budget
	rate, burst := tc.Rate, tc.effBurst()
	if tc.TotalRate > 0 && (rate == 0 || tc.TotalRate < rate) {
		rate, burst = tc.TotalRate, tc.effTotalBurst()
	}
	for i := 0; i < n; i++ {
		secs := rapid.Float64Range(0.05, 0.45).Draw(t, "seconds")
		size := int(float64(burst)+rate*secs)/n + rapid.IntRange(0, 3).Draw(t, "extra")
		if rate == 0 {
			size = rapid.IntRange(0, 100000).Draw(t, "sizeUnlimited")
		}
		cs := connSpec{Size: size, ReadBuf: []int{1, 2, 100, 1500, 4096, 16384, 65536}[rapid.IntRange(0, 6).Draw(t, "readBuf")]}
		if rapid.IntRange(0, 3).Draw(t, "trickle") == 0 {
			cs.Trickle = time.Duration(rapid.IntRange(5, 60).Draw(t, "trickleMs")) * time.Millisecond
			cs.TrickleBytes = rapid.IntRange(1, 50).Draw(t, "trickleBytes")
			cs.Size = min(cs.Size, cs.TrickleBytes*rapid.IntRange(1, 12).Draw(t, "trickleRounds"))
			// the throttle charges the limiters by the size of the buffer it is given, not by the bytes it gets: a large
			// buffer on a trickling client drains the bucket and makes the case wait for minutes (allowed, but useless here)
			cs.ReadBuf = min(cs.ReadBuf, 64)
		}
		if cs.ReadBuf == 1 && cs.Size > 3000 {
			cs.ReadBuf = 100 // keeps the number of limiter waits per case bounded
		}
		tc.Conns = append(tc.Conns, cs)
	}
	tc.EOFWithData = rapid.Bool().Draw(t, "eofWithData")
	if rapid.IntRange(0, 3).Draw(t, "readDeadline") == 0 {
		tc.ReadDeadline = time.Duration(rapid.IntRange(1, 40).Draw(t, "readDeadlineMs")) * time.Millisecond
	}
	// keep the case within about half a second of limiter time: shrink reader buffers whose token cost
	// (see cost) exceeds what the buckets yield in that time
	batchCap := 0
	for _, b := range []int{tc.effBurst(), tc.effTotalBurst()} {
		if b > 0 && (batchCap == 0 || b < batchCap) {
			batchCap = b
		}
	}
	for round := 0; round < 400 && rate > 0; round++ {
		total, worst := 0, 0
		for i, cs := range tc.Conns {
			c := cost(cs, batchCap)
			total += c
			if c > cost(tc.Conns[worst], batchCap) {
				worst = i
			}
		}
		perConnOK := tc.Rate == 0 || float64(cost(tc.Conns[worst], batchCap)) <= float64(tc.effBurst())+tc.Rate*0.5
		totalOK := tc.TotalRate == 0 || float64(total) <= float64(tc.effTotalBurst())+tc.TotalRate*0.5
		if perConnOK && totalOK {
			break
		}
		tc.Conns[worst].ReadBuf = max(1, tc.Conns[worst].ReadBuf/4)
		if tc.Conns[worst].ReadBuf == 1 {
			tc.Conns[worst].Size = tc.Conns[worst].Size / 2
		}
	}
	// every limiter wait costs a timer: bound the number of reads per connection
	for i := range tc.Conns {
		if cs := &tc.Conns[i]; cs.Size/cs.ReadBuf > 1500 {
			cs.Size = cs.ReadBuf * 1500
		}
	}
	return tc
}

// runBurstOnly: with a burst size and no rate the bound burst + rate x T is the burst itself, at every T. Nothing more
// can ever pass, so the connections are cancelled after a short while (any moment is as good as another for a bound
// that holds at all times) and what they pulled from their clients is compared with the burst sizes.
func runBurstOnly(t hx.TB, tc tcase, class string) {
	th := rx.H("throttle")
	if tc.Burst > 0 {
		th["read_burst_size"] = tc.Burst
	}
	if tc.TotalBurst > 0 {
		th["total_read_burst_size"] = tc.TotalBurst
	}
	rl, err := rx.Routes(rx.BareCtx(), tc.routesFor(nil, th, rx.H("verif_term", "id", "R")))
	if err != nil {
		t.Fatalf("provision: %v", err)
	}
	shared := rx.Compile(rl, time.Second, false)
	type res struct {
		under  *hx.ScriptConn
		stream []byte
		data   []byte
	}
	results := make([]*res, len(tc.Conns))
	var cancels []context.CancelFunc
	var wg sync.WaitGroup
	for i, cs := range tc.Conns {
		cs := cs
		r := &res{stream: hx.Stream(uint64(i)*31+uint64(cs.Size), cs.Size)}
		r.under = hx.NewScriptConn([][]byte{r.stream}, hx.EndEOF)
		r.under.LogReads = true
		results[i] = r
		cx := layer4.WrapConnection(r.under, make([]byte, 0, 2048), zap.NewNop())
		ctx, cancel := context.WithCancel(cx.Context)
		cx.Context = ctx
		cancels = append(cancels, cancel)
		tr := rx.NewTrace()
		tr.ReadBuf = cs.ReadBuf
		rx.Bind(cx, tr)
		wg.Add(1)
		go func() {
			defer wg.Done()
			_ = shared.Handle(cx)
			for _, e := range tr.Snapshot() {
				if e.ID == "R" {
					r.data = e.Data
				}
			}
		}()
	}
	done := make(chan struct{})
	go func() { wg.Wait(); close(done) }()
	select {
	case <-done:
	case <-time.After(25 * time.Millisecond):
	}
	for _, c := range cancels {
		c()
	}
	select {
	case <-done:
	case <-time.After(20 * time.Second):
		hx.Class("C17/timeout-skipped", 1)
		return
	}
	desc := fmt.Sprintf("burst-only: burst=%d total_burst=%d (no rate configured) conns=%+v", tc.Burst, tc.TotalBurst, tc.Conns)
	sum, over := 0, false
	for i, r := range results {
		pulled := 0
		for _, ev := range r.under.ReadLog {
			if ev.N > 0 {
				pulled = ev.Cum
			}
		}
		sum += pulled
		if tc.Burst > 0 && pulled > tc.Burst {
			hx.Fail(t, "C17", "per-connection-bound", "connection %d: %d bytes were read from the client; the burst is %d and the rate is zero, so no more than the burst may ever pass\n  %s", i, pulled, tc.Burst, desc)
			return
		}
		if !bytes.HasPrefix(r.stream, r.data) {
			hx.Fail(t, "C17", "stream-not-intact", "connection %d: the handler behind the throttle read %d bytes that are not a prefix of the client's stream; first difference at %d\n  %s", i, len(r.data), hx.FirstDiff(r.data, r.stream), desc)
			return
		}
		if len(r.stream) > tc.Burst && tc.Burst > 0 || len(r.stream) > tc.TotalBurst && tc.TotalBurst > 0 {
			over = true
		}
	}
	if tc.TotalBurst > 0 && sum > tc.TotalBurst {
		hx.Fail(t, "C17", "total-bound", "all connections together read %d bytes from their clients; the total burst is %d and the total rate is zero\n  %s", sum, tc.TotalBurst, desc)
		return
	}
	hx.Case(hx.Hash(desc), over, "C17/"+class, "C17/burst-only")
	if over {
		hx.Sample("burst-only", map[string]any{"case": desc, "bytes_pulled": sum})
	}
}

func runCase(t hx.TB, tc tcase, class string) {
	if tc.BurstOnly {
		runBurstOnly(t, tc, class)
		return
	}
	th := rx.H("throttle")
	if tc.Rate > 0 {
		th["read_bytes_per_second"] = tc.Rate
	}
	if tc.Burst > 0 {
		th["read_burst_size"] = tc.Burst
	}
	if tc.TotalRate > 0 {
		th["total_read_bytes_per_second"] = tc.TotalRate
	}
	if tc.TotalBurst > 0 {
		th["total_read_burst_size"] = tc.TotalBurst
	}
	if tc.Latency > 0 {
		th["latency"] = tc.Latency.String()
	}
	started := time.Now()
	defer func() {
		if d := time.Since(started); d > 3*time.Second {
			fmt.Printf("SLOW-CASE %v %+v\n", d, tc)
		}
	}()
	results := make([]*connResult, len(tc.Conns))
	var wg sync.WaitGroup
	// one provisioned throttle handler shared by all connections (so that the total limiter is shared)
	top := tc.routesFor([]map[string]any{rx.H("verif_mark", "id", "M")}, th, rx.H("verif_term", "id", "R"))
	if tc.OwnRoute {
		hx.Class("C17/throttle-in-a-route-of-its-own", 1)
	}
	rl, err := rx.Routes(rx.BareCtx(), top)
	if err != nil {
		t.Fatalf("provision: %v", err)
	}
	shared := rx.Compile(rl, time.Second, false)
	for i, cs := range tc.Conns {
		i, cs := i, cs
		res := &connResult{stream: hx.Stream(uint64(i)*977+uint64(cs.Size), cs.Size)}
		results[i] = res
		wg.Add(1)
		go func() {
			defer wg.Done()
			var under *hx.ScriptConn
			if cs.Trickle > 0 {
				under = hx.NewScriptConn(nil, hx.EndSilentReal)
				go func() {
					for off := 0; off < len(res.stream); off += cs.TrickleBytes {
						under.Push(res.stream[off:min(off+cs.TrickleBytes, len(res.stream))])
						time.Sleep(cs.Trickle)
					}
					under.SetEnd(hx.EndEOF)
				}()
			} else if tc.EOFWithData {
				under = hx.NewScriptConn([][]byte{res.stream}, hx.EndEOFWithData)
			} else {
				under = hx.NewScriptConn([][]byte{res.stream}, hx.EndEOF)
			}
			under.LogReads = true
			var once sync.Once
			under.OnRead = func() { once.Do(func() { res.firstEntry = time.Now() }) }
			cx := layer4.WrapConnection(under, make([]byte, 0, 2048), zap.NewNop())
			tr := rx.NewTrace()
			tr.ReadBuf = cs.ReadBuf
			tr.TermDeadline = tc.ReadDeadline
			rx.Bind(cx, tr)
			if err := shared.Handle(cx); err != nil {
				res.err = err.Error()
			}
			for _, e := range tr.Snapshot() {
				switch e.ID {
				case "M":
					res.markAt = e.At
				case "R":
					res.data = e.Data
				}
			}
			for _, ev := range under.ReadLog {
				if ev.N > 0 {
					res.points = append(res.points, point{ev.At, ev.Cum})
				}
			}
		}()
	}
	done := make(chan struct{})
	go func() { wg.Wait(); close(done) }()
	select {
	case <-done:
	case <-time.After(20 * time.Second):
		// a time budget hit is inconclusive, never a violation (the property has no liveness clause)
		hx.Class("C17/timeout-skipped", 1)
		return
	}
	desc := fmt.Sprintf("rate=%v burst=%d(eff %d) total_rate=%v total_burst=%d(eff %d) latency=%v end-of-stream-with-last-bytes=%v read-deadline=%v conns=%+v", tc.Rate, tc.Burst, tc.effBurst(), tc.TotalRate, tc.TotalBurst, tc.effTotalBurst(), tc.Latency, tc.EOFWithData, tc.ReadDeadline, tc.Conns)
	waits := 0
	var all []point
	var firstAny time.Time
	for i, r := range results {
		if r.err != "" {
			hx.Fail(t, "C17", "handle-error", "connection %d: %s\n  %s", i, r.err, desc)
			return
		}
		if intact := bytes.Equal(r.data, r.stream) || (tc.ReadDeadline > 0 && bytes.HasPrefix(r.stream, r.data)); !intact {
			// (with a read deadline the reader may legitimately stop early: what it got must still be the stream's beginning)
			hx.Fail(t, "C17", "stream-not-intact", "connection %d: the handler behind the throttle read %d bytes, want %d; first difference at %d\n  %s", i, len(r.data), len(r.stream), hx.FirstDiff(r.data, r.stream), desc)
			return
		}
		if tc.Latency > 0 && len(r.stream) > 0 && r.firstEntry.Sub(r.markAt) < tc.Latency-5*time.Millisecond {
			hx.Fail(t, "C17", "latency", "connection %d: the first read was attempted %v after the handler was entered, configured latency %v\n  %s", i, r.firstEntry.Sub(r.markAt), tc.Latency, desc)
			return
		}
		if tc.Rate > 0 {
			b := float64(tc.effBurst())
			// T is counted from an instant that certainly precedes the limiter's first wait (the handler in front of the
			// throttle recorded its entry, and the throttle sleeps its latency before it lets anything read), up to an
			// instant after the read had returned: scheduling can only make T longer than it was, never shorter
			ref := r.markAt.Add(tc.Latency)
			for _, p := range r.points {
				el := p.at.Sub(ref).Seconds()
				if bound := b + tc.Rate*el + 1; float64(p.cum) > bound {
					hx.Fail(t, "C17", "per-connection-bound", "connection %d: %d bytes had been read from the client %.6f s after the throttle could first have read; burst + rate x T allows %.1f\n  %s", i, p.cum, el, bound, desc)
					return
				}
			}
			if len(r.stream) > 2*tc.effBurst() {
				waits++
			}
		}
		if ref := r.markAt.Add(tc.Latency); !r.markAt.IsZero() && (firstAny.IsZero() || ref.Before(firstAny)) {
			firstAny = ref
		}
		prev := 0
		for _, p := range r.points {
			all = append(all, point{p.at, p.cum - prev}) // increments
			prev = p.cum
		}
	}
	if tc.TotalRate > 0 {
		// sum over all connections: sort the increments by the time at which they were observed
		sortPoints(all)
		sum := 0
		b := float64(tc.effTotalBurst())
		for _, p := range all {
			sum += p.cum
			el := p.at.Sub(firstAny).Seconds()
			// Several connections use the total limiter at the same time. golang.org/x/time/rate takes its time stamp
			// before it takes its lock, so a caller that was overtaken moves the limiter's clock back and the interval in
			// between is credited twice: rate x (how long that caller waited for the lock), per such event. That is the
			// library's precision under contention, not the handler's doing; one millisecond per connection is allowed
			// for it here (a single connection, where nothing of the kind can happen, is held to the exact bound above).
			slack := float64(len(tc.Conns))
			if len(tc.Conns) > 1 {
				slack += tc.TotalRate * 0.001 * float64(len(tc.Conns))
			}
			if bound := b + tc.TotalRate*el + slack; float64(sum) > bound {
				hx.Fail(t, "C17", "total-bound", "all connections together had read %d bytes %.6f s after the first of them could have read; total burst + total rate x T allows %.1f\n  %s", sum, el, bound, desc)
				return
			}
		}
	}
	nontrivial := waits > 0 || (tc.TotalRate > 0 && len(tc.Conns) >= 2)
	cl := []string{"C17/" + class}
	if tc.Rate > 0 {
		cl = append(cl, "C17/per-connection-limit")
	}
	if tc.TotalRate > 0 {
		cl = append(cl, "C17/total-limit")
		if len(tc.Conns) >= 2 {
			cl = append(cl, "C17/total-limit-shared")
		}
	}
	if tc.Latency > 0 {
		cl = append(cl, "C17/latency")
	}
	for _, cs := range tc.Conns {
		if cs.Trickle > 0 {
			cl = append(cl, "C17/trickling-client")
			break
		}
	}
	hx.Case(hx.Hash(desc), nontrivial, cl...)
	if nontrivial {
		hx.Sample(fmt.Sprint(tc.Rate > 0, tc.TotalRate > 0, len(tc.Conns) > 1), map[string]any{"case": desc, "read_points": len(all)})
	}
}

func sortPoints(ps []point) {
	// insertion sort is fine for a few thousand points; keeps the file dependency-free
	for i := 1; i < len(ps); i++ {
		for j := i; j > 0 && ps[j].at.Before(ps[j-1].at); j-- {
			ps[j], ps[j-1] = ps[j-1], ps[j]
		}
	}
}

func TestThrottle(t *testing.T) {
	rapid.Check(t, func(rt *rapid.T) { runCase(rt, genCase(rt), "generated") })
}
