package c03

import (
	"fmt"
	"net"
	"os"
	"path/filepath"
	"runtime/debug"
	"sync"
	"sync/atomic"
	"testing"
	"time"

	"pgregory.net/rapid"

	"verifharness/hx"
	"verifharness/rx"
)

// With retries configured, a dial attempt that fails half-way (one peer of the upstream connected, a later one
// refused) is repeated. When the handler has returned, every upstream connection it opened has been closed - those
// of the attempts that were given up included.
var retrySeq atomic.Int64

func TestRetriedAttemptsCloseTheirConnections(t *testing.T) {
	rapid.Check(t, func(rt *rapid.T) {
		// peer A accepts from the start and keeps every connection it was given
		lnA, err := hx.Listen("tcp", "127.0.0.1:0")
		if err != nil {
			rt.Fatalf("listen: %v", err)
		}
		defer lnA.Close()
		// (it reads each of them to the end - the proxy's half-close or close - and then closes its own side)
		type peerConn struct {
			c     net.Conn
			ended chan struct{}
		}
		var mu sync.Mutex
		var accepted []*peerConn
		go func() {
			for {
				c, err := lnA.Accept()
				if err != nil {
					return
				}
				pc := &peerConn{c, make(chan struct{})}
				mu.Lock()
				accepted = append(accepted, pc)
				mu.Unlock()
				go func() {
					buf := make([]byte, 1024)
					for {
						if _, err := c.Read(buf); err != nil {
							break
						}
					}
					close(pc.ended)
					_ = c.Close()
				}()
			}
		}()
		// peer B is a Unix socket that does not exist at first and starts listening a little later (a path of its own:
		// a TCP port "reserved" by listening and closing could be taken by another process in between)
		addrB := filepath.Join(os.TempDir(), fmt.Sprintf("c03-retry-%d-%d.sock", os.Getpid(), retrySeq.Add(1)))
		defer os.Remove(addrB)
		late := time.Duration(rapid.IntRange(60, 250).Draw(rt, "peerBAppearsAfterMs")) * time.Millisecond
		interval := time.Duration(rapid.IntRange(20, 80).Draw(rt, "tryIntervalMs")) * time.Millisecond
		bUp := make(chan net.Listener, 1)
		go func() {
			time.Sleep(late)
			ln, err := net.Listen("unix", addrB)
			if err != nil {
				bUp <- nil
				return
			}
			bUp <- ln
			for {
				c, err := ln.Accept()
				if err != nil {
					return
				}
				go func() {
					defer c.Close()
					buf := make([]byte, 1024)
					for {
						if _, err := c.Read(buf); err != nil {
							return
						}
					}
				}()
			}
		}()
		// without the collector, which closes sockets nobody refers to any more, behind the handler's back
		defer debug.SetGCPercent(debug.SetGCPercent(-1))
		provMu.Lock()
		srv, err := rx.Server(rx.BareCtx(), []rx.R{{Handle: []map[string]any{rx.H("proxy",
			"upstreams", []map[string]any{{"dial": []string{lnA.Addr().String(), "unix/" + addrB}}},
			"load_balancing", map[string]any{"try_duration": "3s", "try_interval": interval.String()})}}}, 5*time.Second)
		provMu.Unlock()
		if err != nil {
			rt.Fatalf("provision: %v", err)
		}
		front, err := hx.Listen("tcp", "127.0.0.1:0")
		if err != nil {
			rt.Fatalf("listen: %v", err)
		}
		defer front.Close()
		handleDone := make(chan struct{})
		go func() {
			defer close(handleDone)
			c, err := front.Accept()
			if err != nil {
				return
			}
			srv.VerifHandle(c)
		}()
		cli, err := hx.Dial("tcp", front.Addr().String())
		if err != nil {
			rt.Fatalf("dial: %v", err)
		}
		_, _ = cli.Write([]byte("hello"))
		lnB := <-bUp
		if lnB == nil {
			_ = cli.Close()
			select {
			case <-handleDone:
			case <-time.After(10 * time.Second):
			}
			return // peer B could not listen: nothing to judge
		}
		defer lnB.Close()
		time.Sleep(2*interval + 30*time.Millisecond) // the attempt that finds both peers
		_ = cli.Close()
		select {
		case <-handleDone:
		case <-time.After(10 * time.Second):
			hx.Fail(rt, "C03", "handler-did-not-return", "the client closed but the proxy handler had not returned after 10 s (peer B appeared after %v, try_interval %v)", late, interval)
			return
		}
		mu.Lock()
		conns := append([]*peerConn(nil), accepted...)
		mu.Unlock()
		open := 0
		until := time.Now().Add(1500 * time.Millisecond)
		for _, pc := range conns {
			select {
			case <-pc.ended:
			case <-time.After(time.Until(until)):
				open++
				_ = pc.c.Close()
			}
		}
		desc := fmt.Sprintf("upstream with peers A (up) and B (refusing for the first %v), try_interval %v: A was given %d connection(s)", late, interval, len(conns))
		if open > 0 {
			hx.Fail(rt, "C03", "upstream-not-closed/after-retries", "%d of the connections the proxy opened to peer A are still open 1.5 s after the handler returned\n  %s", open, desc)
			return
		}
		hx.Case(hx.Hash("retry", desc), len(conns) >= 2, "C03/retried-attempts")
		if len(conns) >= 2 {
			hx.Sample("retry", map[string]any{"peer_b_late": late.String(), "try_interval": interval.String(), "connections_to_a": len(conns)})
		}
	})
}
