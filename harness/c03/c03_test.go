// C03 — the proxy relays both directions byte-exactly, with half-close and cleanup.
package c03

import (
	"bytes"
	"crypto/ecdsa"
	"crypto/elliptic"
	"crypto/rand"
	"crypto/tls"
	"crypto/x509"
	"crypto/x509/pkix"
	"fmt"
	"github.com/mholt/caddy-l4/layer4"
	"io"
	"math/big"
	"net"
	"os"
	"path/filepath"
	"strings"
	"sync"
	"testing"
	"time"

	"pgregory.net/rapid"

	"verifharness/hx"
	"verifharness/rx"
)

func TestMain(m *testing.M) { hx.Main(m) }

type peerPlan struct {
	Resp int
	// Mode: "after-eof"  the peer answers only after it has seen the client's end-of-stream (request/response over half-close)
	//       "first"      the peer answers at once, half-closes, then keeps reading until the client's end-of-stream
	//       "duplex"     the peer answers while it reads
	Mode  string
	Chunk int
	RstAt int // >0: the peer resets the connection after reading this many bytes
	// SlowReader: the peer has a small receive buffer and reads in small pieces with pauses, so that much of what the
	// client sent is still on its way (in the proxy's socket) when the relay is over and the proxy closes
	SlowReader bool
}

type c3case struct {
	Transport string // tcp, unix, tls, throttled (TCP behind a throttle handler: the downstream then offers no half-close)
	Consume   int    // bytes a non-terminal route consumes before the route with the proxy handler is matched
	Upstream  string // tcp, unix or tls (the proxy dials its upstreams with TLS)
	// TLS12Close (Transport tls): the client speaks TLS 1.2 and its last record leaves together with its close_notify,
	// so that the server reads the end of the stream in the same call as the last bytes
	TLS12Close  bool
	Peers       []peerPlan
	Client      int
	ClientChunk int
	PauseUs     int
	PreMatch    int
	// ClientLate: the client first reads until it sees end-of-stream from the upstreams and only then sends
	ClientLate  bool
	ClientRstAt int // >0: the client resets after sending this many bytes
}

func (c c3case) String() string {
	type plain c3case // avoids recursing into this method
	return fmt.Sprintf("%+v", plain(c))
}

func logSize(t *rapid.T, label string, max int) int {
	switch rapid.IntRange(0, 5).Draw(t, label+"Kind") {
	case 0:
		return 0
	case 1:
		return rapid.IntRange(1, 100).Draw(t, label+"S")
	case 2:
		return rapid.IntRange(60000, max).Draw(t, label+"L")
	default:
		return rapid.IntRange(100, 20000).Draw(t, label+"M")
	}
}

func genCase(t *rapid.T, maxSize int) c3case {
	c := c3case{Transport: []string{"tcp", "unix", "tls", "throttled"}[rapid.IntRange(0, 3).Draw(t, "transport")], Upstream: []string{"tcp", "unix", "tls"}[rapid.IntRange(0, 2).Draw(t, "upstream")]}
	c.TLS12Close = c.Transport == "tls" && rapid.Bool().Draw(t, "tls12Close")
	c.Client = logSize(t, "client", maxSize)
	c.ClientChunk = []int{1 << 20, 7, 1000, 16384}[rapid.IntRange(0, 3).Draw(t, "clientChunk")]
	if c.Client > 20000 && c.ClientChunk < 1000 {
		c.ClientChunk = 1000
	}
	c.PauseUs = rapid.IntRange(0, 300).Draw(t, "pauseUs")
	c.ClientLate = rapid.IntRange(0, 2).Draw(t, "clientLate") == 0
	if c.Client > 0 {
		c.PreMatch = rapid.IntRange(0, min(c.Client, 6000)).Draw(t, "prematch")
	}
	if c.ClientLate {
		c.PreMatch = 0 // a matcher that waits for bytes would wait for the late client: that is C05's business
	}
	// (the second matcher wants PreMatch bytes behind the consumed ones, and the matching buffer - which keeps counting
	// consumed bytes - holds layer4.MaxMatchingBytes: beyond that matching legitimately ends with "buffer full")
	if room := min(c.PreMatch-1, c.Client-c.PreMatch, layer4.MaxMatchingBytes-c.PreMatch); c.PreMatch > 1 && c.Transport != "tls" && room >= 1 && rapid.Bool().Draw(t, "consume") {
		c.Consume = rapid.IntRange(1, room).Draw(t, "consumeN")
	}
	np := rapid.IntRange(1, 3).Draw(t, "npeers")
	for i := 0; i < np; i++ {
		p := peerPlan{Resp: logSize(t, "resp", maxSize), Chunk: []int{1 << 20, 13, 4096}[rapid.IntRange(0, 2).Draw(t, "peerChunk")]}
		if p.Resp > 20000 && p.Chunk < 4096 {
			p.Chunk = 4096
		}
		if c.ClientLate {
			p.Mode = "first"
		} else {
			p.Mode = []string{"after-eof", "duplex", "first"}[rapid.IntRange(0, 2).Draw(t, "mode")]
		}
		// (only for streams of moderate size: with a receive window far below the loopback segment size the kernel
		//  moves a few KiB per delayed-acknowledgement round, and a MiB would take longer than the case may last)
		p.SlowReader = rapid.IntRange(0, 3).Draw(t, "slowReader") == 0 && c.Client <= 100000
		c.Peers = append(c.Peers, p)
	}
	switch rapid.IntRange(0, 7).Draw(t, "fault") {
	case 0:
		if c.Client > 1 && !c.ClientLate {
			c.ClientRstAt = rapid.IntRange(1, c.Client-1).Draw(t, "clientRstAt")
		}
	case 1:
		if c.Client > 1 && !c.ClientLate {
			i := rapid.IntRange(0, np-1).Draw(t, "rstPeer")
			c.Peers[i].RstAt = rapid.IntRange(1, c.Client-1).Draw(t, "peerRstAt")
			c.Peers[i].Mode = "duplex"
		}
	}
	return c
}

// byte alphabets: peer p only sends bytes with b%4 == p+1, the client only b%4 == 0
// holdConn collects writes while hold is set and sends them as one piece on flush.
type holdConn struct {
	net.Conn
	hold bool
	held []byte
}

func (h *holdConn) Write(p []byte) (int, error) {
	if h.hold {
		h.held = append(h.held, p...)
		return len(p), nil
	}
	return h.Conn.Write(p)
}

func (h *holdConn) flush() error {
	h.hold = false
	_ = h.Conn.SetWriteDeadline(time.Now().Add(15 * time.Second)) // crypto/tls sets it to "now" after its close_notify
	_, err := h.Conn.Write(h.held)
	h.held = nil
	return err
}

// CloseWrite lets crypto/tls half-close the TCP connection underneath.
func (h *holdConn) CloseWrite() error {
	if cw, ok := h.Conn.(interface{ CloseWrite() error }); ok {
		return cw.CloseWrite()
	}
	return nil
}

var peerCert = func() tls.Certificate {
	key, _ := ecdsa.GenerateKey(elliptic.P256(), rand.Reader)
	tpl := &x509.Certificate{SerialNumber: big.NewInt(3), Subject: pkix.Name{CommonName: "c03 peer"}, NotBefore: time.Now().Add(-time.Hour), NotAfter: time.Now().Add(48 * time.Hour),
		KeyUsage: x509.KeyUsageDigitalSignature, ExtKeyUsage: []x509.ExtKeyUsage{x509.ExtKeyUsageServerAuth}, DNSNames: []string{"localhost"}, IPAddresses: []net.IP{net.IPv4(127, 0, 0, 1)}}
	der, _ := x509.CreateCertificate(rand.Reader, tpl, tpl, &key.PublicKey, key)
	return tls.Certificate{Certificate: [][]byte{der}, PrivateKey: key}
}()

func alphabet(tag uint64, n int, class byte) []byte {
	s := hx.Stream(tag, n)
	for i := range s {
		s[i] = s[i]&^3 | class
	}
	return s
}

type peerResult struct {
	got        []byte
	sawEOF     bool
	closedSeen bool
	err        string
	// notContacted: the proxy never connected to this peer
	notContacted bool
}

func fdCount() int {
	ents, _ := os.ReadDir("/proc/self/fd")
	return len(ents)
}

var provMu sync.Mutex

func runCase(t hx.TB, c c3case, dir string) {
	fdBefore := fdCount()
	// ---- upstream peers ----
	var peerLns []net.Listener
	var dials []string
	pres := make([]*peerResult, len(c.Peers))
	var peerWG sync.WaitGroup
	for i, p := range c.Peers {
		i, p := i, p
		var ln net.Listener
		var err error
		if c.Upstream == "unix" {
			path := filepath.Join(dir, fmt.Sprintf("p%d-%d.sock", i, time.Now().UnixNano()))
			ln, err = net.Listen("unix", path)
			dials = append(dials, "unix/"+path)
		} else {
			ln, err = hx.Listen("tcp", "127.0.0.1:0")
			if err == nil {
				dials = append(dials, ln.Addr().String())
				if c.Upstream == "tls" {
					ln = tls.NewListener(ln, &tls.Config{Certificates: []tls.Certificate{peerCert}})
				}
			}
		}
		if err != nil {
			t.Fatalf("peer listen: %v", err)
		}
		peerLns = append(peerLns, ln)
		pres[i] = &peerResult{}
		resp := alphabet(uint64(i)+100, p.Resp, byte(i+1))
		peerWG.Add(1)
		go func() {
			defer peerWG.Done()
			conn, err := ln.Accept()
			if err != nil {
				pres[i].err = "accept: " + err.Error()
				pres[i].notContacted = true
				return
			}
			defer conn.Close()
			_ = conn.SetDeadline(time.Now().Add(30 * time.Second))
			if tc, ok := conn.(*net.TCPConn); ok && p.SlowReader {
				_ = tc.SetReadBuffer(4096)
			}
			r := pres[i]
			if tc, ok := conn.(*tls.Conn); ok {
				// a TLS server completes the handshake when the connection arrives, before its application speaks or
				// half-closes (crypto/tls would otherwise only do so on the first Read or Write)
				if err := tc.Handshake(); err != nil {
					r.err = "handshake: " + err.Error()
					return
				}
			}
			send := func() {
				for off := 0; off < len(resp); off += p.Chunk {
					if _, err := conn.Write(resp[off:min(off+p.Chunk, len(resp))]); err != nil {
						r.err = "write: " + err.Error()
						return
					}
				}
			}
			halfClose := func() {
				if cw, ok := conn.(interface{ CloseWrite() error }); ok {
					_ = cw.CloseWrite()
				}
			}
			readAll := func() {
				buf := make([]byte, 32*1024)
				if p.SlowReader {
					buf = buf[:2048]
				}
				for {
					if p.SlowReader && len(r.got) < 1<<20 {
						time.Sleep(300 * time.Microsecond)
					}
					n, err := conn.Read(buf)
					r.got = append(r.got, buf[:n]...)
					if p.RstAt > 0 && len(r.got) >= p.RstAt {
						if tc, ok := conn.(*net.TCPConn); ok {
							_ = tc.SetLinger(0)
						}
						_ = conn.Close()
						return
					}
					if err != nil {
						r.sawEOF = err == io.EOF
						return
					}
				}
			}
			switch p.Mode {
			case "after-eof":
				readAll()
				send()
				halfClose()
			case "first":
				send()
				halfClose()
				readAll()
			default:
				var wg sync.WaitGroup
				wg.Add(1)
				go func() { defer wg.Done(); send(); halfClose() }()
				readAll()
				wg.Wait()
			}
			if p.RstAt > 0 {
				return
			}
			// after the relay is over the proxy must close this connection: a further read ends
			_ = conn.SetReadDeadline(time.Now().Add(5 * time.Second))
			_, err = conn.Read(make([]byte, 1))
			r.closedSeen = err != nil && !isTimeout(err)
		}()
	}
	defer func() {
		for _, l := range peerLns {
			_ = l.Close()
		}
	}()
	// ---- the proxy under test ----
	upCfg := map[string]any{"dial": dials}
	if c.Upstream == "tls" {
		upCfg["tls"] = map[string]any{"insecure_skip_verify": true}
	}
	proxy := rx.H("proxy", "upstreams", []map[string]any{upCfg})
	var routes []rx.R
	ctx := rx.BareCtx()
	if c.Transport == "tls" {
		var err error
		if ctx, err = rx.TLSCtx(); err != nil {
			t.Fatalf("tls ctx: %v", err)
		}
		routes = []rx.R{{Match: []map[string]any{rx.M("tls", map[string]any{})}, Handle: []map[string]any{rx.H("tls"), proxy}}}
	} else {
		chain := []map[string]any{proxy}
		if c.Transport == "throttled" {
			chain = []map[string]any{rx.H("throttle", "read_bytes_per_second", 1e9, "read_burst_size", 1<<20), proxy}
		}
		switch {
		case c.Consume > 0:
			// a first, non-terminal route consumes part of what was prefetched; a second matcher then runs before the proxy
			routes = []rx.R{
				{Match: []map[string]any{rx.M("regexp", map[string]any{"pattern": "(?s).", "count": c.PreMatch})}, Handle: []map[string]any{rx.H("verif_take", "id", "STRIP", "k", c.Consume)}},
				// (it needs as many bytes as the first route, so that it cannot be decided - and run - before the first one)
				{Match: []map[string]any{rx.M("regexp", map[string]any{"pattern": "(?s).", "count": c.PreMatch})}, Handle: chain}}
		case c.PreMatch > 0:
			routes = []rx.R{{Match: []map[string]any{rx.M("regexp", map[string]any{"pattern": "(?s).", "count": c.PreMatch})}, Handle: chain}}
		default:
			routes = []rx.R{{Handle: chain}}
		}
	}
	provMu.Lock()
	srv, err := rx.Server(ctx, routes, 5*time.Second)
	provMu.Unlock()
	if err != nil {
		t.Fatalf("provision: %v", err)
	}
	var front net.Listener
	if c.Transport == "unix" {
		front, err = net.Listen("unix", filepath.Join(dir, fmt.Sprintf("front-%d.sock", time.Now().UnixNano())))
	} else {
		front, err = hx.Listen("tcp", "127.0.0.1:0")
	}
	if err != nil {
		t.Fatalf("front listen: %v", err)
	}
	defer front.Close()
	handleDone := make(chan struct{})
	go func() {
		defer close(handleDone)
		conn, err := front.Accept()
		if err != nil {
			return
		}
		srv.VerifHandle(conn)
	}()
	// ---- the client ----
	raw, err := hx.Dial(front.Addr().Network(), front.Addr().String())
	if err != nil {
		t.Fatalf("dial: %v", err)
	}
	_ = raw.SetDeadline(time.Now().Add(30 * time.Second))
	var cc net.Conn = raw
	var hold *holdConn
	if c.Transport == "tls" {
		ccfg := rx.ClientTLS("example.com", nil)
		if c.TLS12Close {
			ccfg.MaxVersion = tls.VersionTLS12
		}
		hold = &holdConn{Conn: raw}
		tc := tls.Client(hold, ccfg)
		if err := tc.Handshake(); err != nil {
			t.Fatalf("client handshake: %v", err)
		}
		cc = tc
	}
	stream := alphabet(7, c.Client, 0)
	var got []byte
	var gotMu sync.Mutex
	var clientSawEOF bool
	var rd sync.WaitGroup
	rd.Add(1)
	go func() {
		defer rd.Done()
		buf := make([]byte, 32*1024)
		for {
			n, err := cc.Read(buf)
			gotMu.Lock()
			got = append(got, buf[:n]...)
			gotMu.Unlock()
			if err != nil {
				clientSawEOF = err == io.EOF
				return
			}
		}
	}()
	sendAll := func() {
		for off := 0; off < len(stream); off += c.ClientChunk {
			end := min(off+c.ClientChunk, len(stream))
			if c.ClientRstAt > 0 && off+c.ClientChunk > c.ClientRstAt {
				end = min(end, c.ClientRstAt)
			}
			if c.TLS12Close && end == len(stream) && c.ClientRstAt == 0 {
				hold.hold = true // the last record waits for the close_notify
			}
			if _, err := cc.Write(stream[off:end]); err != nil {
				return
			}
			if c.ClientRstAt > 0 && end >= c.ClientRstAt {
				if tc, ok := raw.(*net.TCPConn); ok {
					_ = tc.SetLinger(0)
				}
				_ = raw.Close()
				return
			}
			if c.PauseUs > 0 && off/c.ClientChunk < 20 {
				time.Sleep(time.Duration(c.PauseUs) * time.Microsecond)
			}
		}
		switch x := cc.(type) {
		case *tls.Conn:
			_ = x.CloseWrite()
			if hold != nil && hold.hold {
				_ = hold.flush()
			}
		case interface{ CloseWrite() error }:
			_ = x.CloseWrite()
		}
	}
	noHalfClose := c.Transport == "throttled"
	if c.ClientLate && noHalfClose {
		// the downstream cannot signal end-of-stream: wait until every response byte has arrived, then send
		deadline := time.Now().Add(10 * time.Second)
		for time.Now().Before(deadline) {
			gotMu.Lock()
			n := len(got)
			gotMu.Unlock()
			if n >= totalResp(c) {
				break
			}
			time.Sleep(2 * time.Millisecond)
		}
		time.Sleep(30 * time.Millisecond) // the upstreams have half-closed by now
		sendAll()
		go func() { time.Sleep(300 * time.Millisecond); _ = raw.Close() }() // nobody can tell this client that it is over
		rd.Wait()
	} else if c.ClientLate {
		rd.Wait() // sees the upstreams' end-of-stream first ...
		sendAll() // ... and only then sends (data after the other side's EOF must still arrive)
	} else {
		sendAll()
		rd.Wait()
	}
	// ---- both sides are done: the handler must return, the upstream connections must be closed ----
	returned := true
	select {
	case <-handleDone:
	case <-time.After(10 * time.Second):
		returned = false
	}
	_ = cc.Close()
	if returned {
		// whoever has not been contacted by now never will be (e.g. the client reset during matching)
		time.Sleep(20 * time.Millisecond)
		for _, l := range peerLns {
			_ = l.Close()
		}
	}
	pdone := make(chan struct{})
	go func() { peerWG.Wait(); close(pdone) }()
	select {
	case <-pdone:
	case <-time.After(12 * time.Second):
		hx.Fail(t, "C03", "peer-stuck", "an upstream peer did not finish its script within 12 s (it never saw end-of-stream or close)\n  %s", c)
		return
	}
	stream = stream[c.Consume:] // what the upstreams must get: from the first unconsumed byte
	fault := c.ClientRstAt > 0
	for _, p := range c.Peers {
		if p.RstAt > 0 {
			fault = true
		}
	}
	if !returned {
		hx.Fail(t, "C03", "handler-did-not-return", "both sides finished but the proxy handler had not returned after 10 s\n  %s", c)
		return
	}
	// ---- verdicts ----
	for i, p := range c.Peers {
		r := pres[i]
		if r.notContacted {
			if !fault {
				hx.Fail(t, "C03", "peer-not-contacted", "the proxy never connected to peer %d\n  %s", i, c)
				return
			}
			continue
		}
		if !fault {
			if !bytes.Equal(r.got, stream) {
				hx.Fail(t, "C03", "client-to-upstream", "peer %d received %d bytes, want the client's %d bytes exactly once and in order; first difference at %d (prefetched bytes lost or duplicated?)\n  %s", i, len(r.got), len(stream), hx.FirstDiff(r.got, stream), c)
				return
			}
			if !r.sawEOF {
				hx.Fail(t, "C03", "upstream-no-eof", "peer %d never observed end-of-stream after the client finished sending (err=%q)\n  %s", i, r.err, c)
				return
			}
			if !r.closedSeen {
				hx.Fail(t, "C03", "upstream-not-closed", "peer %d: the upstream connection was not closed after the handler returned\n  %s", i, c)
				return
			}
		} else if !bytes.HasPrefix(stream, r.got) {
			hx.Fail(t, "C03", "client-to-upstream", "fault case: peer %d received %d bytes that are not a prefix of the client's stream; first difference at %d\n  %s", i, len(r.got), hx.FirstDiff(r.got, stream), c)
			return
		}
		// what the client got from this peer
		var from []byte
		for _, b := range got {
			if b&3 == byte(i+1) {
				from = append(from, b)
			}
		}
		want := alphabet(uint64(i)+100, p.Resp, byte(i+1))
		if !fault && !bytes.Equal(from, want) {
			hx.Fail(t, "C03", "upstream-to-client", "the client received %d bytes from peer %d, want its %d bytes in order; first difference at %d\n  %s", len(from), i, len(want), hx.FirstDiff(from, want), c)
			return
		}
		if fault && !bytes.HasPrefix(want, from) {
			hx.Fail(t, "C03", "upstream-to-client", "fault case: what the client received from peer %d is not a prefix of what it sent\n  %s", i, c)
			return
		}
	}
	if !fault {
		for _, b := range got {
			if b&3 == 0 || int(b&3) > len(c.Peers) {
				hx.Fail(t, "C03", "upstream-to-client", "the client received a byte (%#x) that no upstream sent\n  %s", b, c)
				return
			}
		}
		if !clientSawEOF && !noHalfClose {
			hx.Fail(t, "C03", "client-no-eof", "the client never observed end-of-stream after every upstream had finished sending\n  %s", c)
			return
		}
	}
	// file descriptors are back (bounded wait: the kernel closes asynchronously from our point of view)
	for _, l := range peerLns {
		_ = l.Close()
	}
	_ = front.Close()
	deadline := time.Now().Add(3 * time.Second)
	for fdCount() > fdBefore && time.Now().Before(deadline) {
		time.Sleep(10 * time.Millisecond)
	}
	if n := fdCount(); n > fdBefore {
		hx.Fail(t, "C03", "fd-leak", "%d file descriptor(s) more than before the case are still open 3 s after it ended\n  %s", n-fdBefore, c)
		return
	}
	half := (c.ClientLate || hasMode(c, "after-eof")) && c.Client > 0
	nontrivial := (c.Client > 0 && totalResp(c) > 0 && half) || len(c.Peers) >= 2 || c.PreMatch > 0
	cl := []string{"C03/" + c.Transport, "C03/upstream-" + c.Upstream, fmt.Sprintf("C03/peers/%d", len(c.Peers))}
	if c.TLS12Close {
		cl = append(cl, "C03/tls12-close-with-last-record")
	}
	if fault {
		cl = append(cl, "C03/fault")
	}
	if half {
		cl = append(cl, "C03/half-close-with-data-after-eof")
	}
	if c.PreMatch > 0 {
		cl = append(cl, "C03/prefetched")
	}
	if c.Consume > 0 {
		cl = append(cl, "C03/partly-consumed-before-proxy")
	}
	hx.Case(hx.Hash(c.String()), nontrivial, cl...)
	if nontrivial {
		hx.Sample(c.Transport+fmt.Sprint(len(c.Peers), fault, half), map[string]any{"case": c.String(), "client_received": len(got)})
	}
}

func hasMode(c c3case, m string) bool {
	for _, p := range c.Peers {
		if p.Mode == m {
			return true
		}
	}
	return false
}

func totalResp(c c3case) int {
	n := 0
	for _, p := range c.Peers {
		n += p.Resp
	}
	return n
}

func isTimeout(err error) bool {
	ne, ok := err.(net.Error)
	return ok && ne.Timeout()
}

func TestRelay(t *testing.T) {
	dir, err := os.MkdirTemp("", "c03")
	if err != nil {
		t.Fatal(err)
	}
	defer os.RemoveAll(dir)
	maxSize := 200000
	if hx.Tier() == "thorough" {
		maxSize = 1 << 20
	}
	rapid.Check(t, func(rt *rapid.T) { runCase(rt, genCase(rt, maxSize), dir) })
	_ = strings.TrimSpace
}
