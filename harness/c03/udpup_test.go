package c03

import (
	"bytes"
	"fmt"
	"io"
	"net"
	"testing"
	"time"

	"pgregory.net/rapid"

	"verifharness/hx"
	"verifharness/rx"
)

// A datagram upstream (dial "udp/..."): what the client sends goes out as datagrams, and every datagram the upstream
// sends back reaches the client whole - whatever its size up to what the socket carries - in the order sent.
func TestUDPUpstream(t *testing.T) {
	rapid.Check(t, func(rt *rapid.T) {
		upc, err := hx.ListenPacket("udp", "127.0.0.1:0")
		if err != nil {
			rt.Fatalf("listen udp: %v", err)
		}
		defer upc.Close()
		request := alphabet(3, rapid.IntRange(1, 1200).Draw(rt, "request"), 0)
		var sizes []int
		for i := rapid.IntRange(1, 4).Draw(rt, "replies"); i > 0; i-- {
			sizes = append(sizes, rapid.SampledFrom([]int{1, 500, 1472, 4096, 8192, 8193, 12000, 20000, 32768}).Draw(rt, "replySize"))
		}
		var want []byte
		for i, n := range sizes {
			want = append(want, alphabet(uint64(50+i), n, 1)...)
		}
		gotReq := make(chan []byte, 1)
		go func() {
			buf := make([]byte, 65536)
			_ = upc.SetReadDeadline(time.Now().Add(10 * time.Second))
			var req []byte
			var from net.Addr
			for len(req) < len(request) {
				n, a, err := upc.ReadFrom(buf)
				if err != nil {
					gotReq <- req
					return
				}
				req, from = append(req, buf[:n]...), a
			}
			gotReq <- req
			off := 0
			for _, n := range sizes {
				_, _ = upc.WriteTo(want[off:off+n], from)
				off += n
				time.Sleep(time.Millisecond) // datagrams of one flow are not reordered on loopback; no need to tempt it
			}
		}()
		provMu.Lock()
		srv, err := rx.Server(rx.BareCtx(), []rx.R{{Handle: []map[string]any{rx.H("proxy", "upstreams", []map[string]any{{"dial": []string{"udp/" + upc.LocalAddr().String()}}})}}}, 5*time.Second)
		provMu.Unlock()
		if err != nil {
			rt.Fatalf("provision: %v", err)
		}
		front, err := hx.Listen("tcp", "127.0.0.1:0")
		if err != nil {
			rt.Fatalf("listen: %v", err)
		}
		defer front.Close()
		handleDone := make(chan struct{})
		go func() {
			defer close(handleDone)
			c, err := front.Accept()
			if err != nil {
				return
			}
			srv.VerifHandle(c)
		}()
		cli, err := hx.Dial("tcp", front.Addr().String())
		if err != nil {
			rt.Fatalf("dial: %v", err)
		}
		defer cli.Close()
		_ = cli.SetDeadline(time.Now().Add(15 * time.Second))
		if _, err := cli.Write(request); err != nil {
			rt.Fatalf("client write: %v", err)
		}
		got := make([]byte, 0, len(want))
		buf := make([]byte, 65536)
		_ = cli.SetReadDeadline(time.Now().Add(5 * time.Second))
		for len(got) < len(want) {
			n, err := cli.Read(buf)
			got = append(got, buf[:n]...)
			if err != nil {
				break
			}
		}
		desc := fmt.Sprintf("TCP client -> proxy -> UDP upstream; request %d bytes, the upstream answers with datagrams of %v bytes", len(request), sizes)
		req := <-gotReq
		if !bytes.Equal(req, request) {
			hx.Fail(rt, "C03", "udp-upstream/request", "the upstream received %d bytes, want the client's %d (first difference at %d)\n  %s", len(req), len(request), hx.FirstDiff(req, request), desc)
			return
		}
		if !bytes.Equal(got, want) {
			hx.Fail(rt, "C03", "udp-upstream/reply", "the client received %d of the %d bytes the upstream sent (first difference at %d)\n  %s", len(got), len(want), hx.FirstDiff(got, want), desc)
			return
		}
		_ = cli.(*net.TCPConn).CloseWrite()
		_, _ = io.Copy(io.Discard, cli)
		select {
		case <-handleDone:
		case <-time.After(10 * time.Second):
			hx.Fail(rt, "C03", "handler-did-not-return", "the client finished but the proxy handler (UDP upstream) had not returned after 10 s\n  %s", desc)
			return
		}
		big := false
		for _, n := range sizes {
			big = big || n > 8192
		}
		hx.Case(hx.Hash("udpup", desc), big, "C03/udp-upstream")
		if big {
			hx.Sample("udpup", map[string]any{"request": len(request), "reply_datagrams": sizes})
		}
	})
}
