package c02

import (
	"bytes"
	"fmt"
	"strconv"
	"strings"

	"go.uber.org/zap"

	"github.com/mholt/caddy-l4/layer4"

	"verifharness/hx"
	"verifharness/rx"
)

// Run pushes one scripted connection through the compiled route list and
// returns what was recorded.
type Result struct {
	Events []rx.Event
	Pulled int
	Err    error
	Panic  any
}

func Run(h layer4.Handler, segs [][]byte, end hx.EndMode) (res Result) {
	under := hx.NewScriptConn(segs, end)
	cx := layer4.WrapConnection(under, make([]byte, 0, layer4.VerifPrefetchChunkSize), zap.NewNop())
	tr := rx.NewTrace()
	rx.Bind(cx, tr)
	func() {
		defer func() { res.Panic = recover() }()
		res.Err = h.Handle(cx)
	}()
	_, res.Pulled, _ = under.Snapshot()
	res.Events = tr.Snapshot()
	return res
}

// violation describes one breach of the property.
type violation struct {
	key string
	msg string
}

func (v *violation) Error() string { return v.msg }

type checker struct {
	top      []RS
	stream   []byte
	ev       []rx.Event
	pos      int // next event
	consumed int // bytes of the stream consumed by handlers so far
	pulled   int
	end      hx.EndMode
	ended    bool // a terminal handler or the fallback ran: nothing may follow
	// remote is the remote address of the connection as the handlers so far have left it: the client's, or the one
	// declared by the last wrapping handler that ran
	remote string
}

func vio(key, format string, a ...any) *violation {
	return &violation{key: key, msg: fmt.Sprintf(format, a...)}
}

func (c *checker) peek() *rx.Event {
	if c.pos < len(c.ev) {
		return &c.ev[c.pos]
	}
	return nil
}

// availOK: the bytes a handler finds available are exactly the next received, unconsumed stream bytes.
func (c *checker) availOK(e *rx.Event) *violation {
	if c.remote == "" {
		c.remote = e.Remote
	} else if e.Remote != c.remote {
		return vio("stale-connection", "%s was given a connection with remote address %s; the handlers before it left one with %s (a handler continues with the connection the previous one handed on)", e.ID, e.Remote, c.remote)
	}
	end := c.consumed + len(e.Avail)
	if end > len(c.stream) || end > c.pulled || !bytes.Equal(e.Avail, c.stream[c.consumed:end]) {
		return vio("stream-not-intact", "handler %s found %q available, want a prefix of the unconsumed stream %q (consumed %d, pulled %d)",
			e.ID, e.Avail, c.stream[min(c.consumed, len(c.stream)):], c.consumed, c.pulled)
	}
	return nil
}

const (
	outTerminal = iota // a terminal handler ran: nothing else may run
	outFell            // the list was exhausted: its fallback (continuation) runs
	outAborted         // events ran out: matching was abandoned (or a violation)
)

// list walks the events belonging to one route list. prefix is the id prefix
// of its routes, cont tells whether a recorded continuation must follow a
// fall-through of this list (used for the end-of-trace analysis).
func (c *checker) list(l []RS, prefix string) (int, *violation) {
	prev := -1
	for {
		e := c.peek()
		j := -1
		if e != nil && e.Kind == "mark" && strings.HasPrefix(e.ID, "M|"+prefix) {
			rest := strings.TrimPrefix(e.ID, "M|"+prefix)
			if n, err := strconv.Atoi(rest); err == nil {
				j = n
			}
		}
		if j < 0 {
			// no further invocation in this list
			if e == nil {
				return c.endOfTrace(l, prefix, prev)
			}
			// the list fell through on e.Avail: every remaining route must be decided "no"
			if v := c.availOK(e); v != nil {
				return 0, v
			}
			for i := prev + 1; i < len(l); i++ {
				p := RoutePossible(l[i], e.Avail)
				if p == Y {
					return 0, vio("matching-route-skipped", "list %q fell through to %s although route %s%d %s is decided as matching on the available bytes %q",
						prefix, e.ID, prefix, i, l[i], e.Avail)
				}
				if p == U {
					return 0, vio("fallback-while-undecided", "list %q fell through to %s although route %s%d %s is still undecided on the available bytes %q",
						prefix, e.ID, prefix, i, l[i], e.Avail)
				}
			}
			return outFell, nil
		}
		// route j of this list is invoked with e.Avail
		if v := c.availOK(e); v != nil {
			return 0, v
		}
		if j <= prev {
			return 0, vio("route-order", "route %s%d ran after route %s%d (order / repetition)", prefix, j, prefix, prev)
		}
		if j >= len(l) {
			return 0, vio("route-order", "unknown route id %s", e.ID)
		}
		if RoutePossible(l[j], e.Avail)&Y == 0 {
			return 0, vio("ran-unmatched-route", "route %s%d %s ran although none of its matcher sets matches the available bytes %q", prefix, j, l[j], e.Avail)
		}
		for i := prev + 1; i < j; i++ {
			if RoutePossible(l[i], e.Avail) == Y {
				return 0, vio("matching-route-skipped", "route %s%d %s ran although the earlier route %s%d %s is decided as matching on the same available bytes %q",
					prefix, j, l[j], prefix, i, l[i], e.Avail)
			}
		}
		c.pos++
		prev = j
		out, v := c.chain(l[j].Chain, 0, fmt.Sprintf("%s%d", prefix, j))
		if v != nil || out != outFell {
			return out, v
		}
	}
}

// chain walks the handler chain of an invoked route from handler index from.
func (c *checker) chain(ch []HS, from int, path string) (int, *violation) {
	for idx := from; idx < len(ch); idx++ {
		h := ch[idx]
		id := fmt.Sprintf("%s|%d", path, idx)
		switch h.Kind {
		case HTake, HTerm:
			e := c.peek()
			want := "K|" + id
			if h.Kind == HTerm {
				want = "T|" + id
			}
			if e == nil {
				return 0, vio("handler-not-run", "handler %s of the invoked route %s did not run", want, path)
			}
			if e.ID != want {
				return 0, vio("handler-order", "expected handler %s, got %s", want, e.ID)
			}
			if v := c.availOK(e); v != nil {
				return 0, v
			}
			rest := c.stream[c.consumed:]
			if h.Kind == HTake {
				k := min(h.K, len(rest))
				if !bytes.Equal(e.Data, rest[:k]) {
					return 0, vio("stream-not-intact", "handler %s read %q, want %q (the next %d unconsumed bytes)", want, e.Data, rest[:k], h.K)
				}
				c.consumed += len(e.Data)
				c.pos++
				if h.Wrap {
					c.remote = rx.WrapAddr(want).String()
				}
				continue
			}
			if !bytes.Equal(e.Data, rest) {
				return 0, vio("stream-not-intact", "terminal handler %s read %q, want the unconsumed stream %q", want, e.Data, rest)
			}
			c.consumed += len(e.Data)
			c.pos++
			c.ended = true
			if x := c.peek(); x != nil {
				return 0, vio("ran-after-terminal", "%s %s ran after the terminal handler %s", x.Kind, x.ID, want)
			}
			return outTerminal, nil
		case HSub:
			out, v := c.list(h.Sub, fmt.Sprintf("%s.%d/", path, idx))
			if v != nil || out != outFell {
				return out, v
			}
		}
	}
	return outFell, nil
}

// endOfTrace: no events are left while list l (routes after prev) is active.
// Matching may legitimately have been abandoned here only if a route is still
// undecided once every byte the client had was pulled.
func (c *checker) endOfTrace(l []RS, prefix string, prev int) (int, *violation) {
	avail := c.stream[min(c.consumed, len(c.stream)):min(c.pulled, len(c.stream))]
	if c.pulled < c.consumed {
		avail = nil
	}
	undecided := false
	for i := prev + 1; i < len(l); i++ {
		p := RoutePossible(l[i], avail)
		if p&U != 0 {
			undecided = true
			break
		}
		if p == Y {
			return 0, vio("matching-route-skipped", "nothing ran after list %q position %d although route %s%d %s is decided as matching on the received bytes %q", prefix, prev, prefix, i, l[i], avail)
		}
	}
	if undecided {
		if c.pulled < len(c.stream) {
			return 0, vio("abandoned-early", "matching ended while a route of list %q was undecided on %q and the client still had %d byte(s) to deliver", prefix, avail, len(c.stream)-c.pulled)
		}
		return outAborted, nil
	}
	// every remaining route is decided "no": this list fell through silently
	return outFell, nil
}

// Check validates a recorded run against the property.
func Check(top []RS, stream []byte, end hx.EndMode, res Result) *violation {
	if res.Panic != nil {
		return vio("panic", "routing panicked: %v", res.Panic)
	}
	c := &checker{top: top, stream: stream, ev: res.Events, pulled: res.Pulled, end: end}
	if c.pulled > len(stream) {
		return vio("harness", "pulled %d > stream %d", c.pulled, len(stream))
	}
	out, v := c.list(top, "")
	if v != nil {
		return v
	}
	switch out {
	case outTerminal, outAborted:
		if x := c.peek(); x != nil {
			return vio("ran-after-terminal", "%s %s ran after routing had ended", x.Kind, x.ID)
		}
		return nil
	}
	// the top-level list fell through: the fallback must have run exactly once, with the stream intact
	e := c.peek()
	if e == nil {
		return vio("fallback-not-run", "every route is decided as not matching (or the last route was non-terminal) but the fallback did not run; consumed %d of %q", c.consumed, stream)
	}
	if e.Kind != "fallback" {
		return vio("handler-order", "expected the fallback, got %s %s", e.Kind, e.ID)
	}
	if verr := c.availOK(e); verr != nil {
		return verr
	}
	if !bytes.Equal(e.Data, stream[c.consumed:]) {
		return vio("stream-not-intact", "the fallback read %q, want the unconsumed stream %q", e.Data, stream[c.consumed:])
	}
	c.pos++
	if x := c.peek(); x != nil {
		if x.Kind == "fallback" {
			return vio("fallback-twice", "the fallback ran more than once")
		}
		return vio("ran-after-terminal", "%s %s ran after the fallback", x.Kind, x.ID)
	}
	return nil
}

// Describe renders a case for messages and evidence samples.
func Describe(top []RS, segs [][]byte, end hx.EndMode, res Result) string {
	var sb strings.Builder
	fmt.Fprintf(&sb, "routes=%s segments=%q end=%s pulled=%d trace=[", ListString(top), segs, endName(end), res.Pulled)
	for i, e := range res.Events {
		if i > 0 {
			sb.WriteString(" ")
		}
		fmt.Fprintf(&sb, "%s(avail=%q", e.ID+e.Kind[:1], e.Avail)
		if e.Kind != "mark" {
			fmt.Fprintf(&sb, ",read=%q", e.Data)
		}
		sb.WriteString(")")
	}
	sb.WriteString("]")
	return sb.String()
}

func endName(e hx.EndMode) string {
	if e == hx.EndEOF {
		return "client-closes"
	}
	if e == hx.EndEOFWithData {
		return "client-closes (end of stream reported together with the last bytes)"
	}
	return "client-silent-until-timeout"
}
