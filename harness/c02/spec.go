// Package c02 checks property C02 (routes run in order and only when matched;
// otherwise the fallback runs once) with a validity predicate over recorded
// traces, written from the property text.
package c02

import (
	"fmt"
	"strings"

	"verifharness/rx"
)

// MS is a harness matcher (rx.Need): verdict is a pure function of the first N available bytes.
type MS struct {
	N    int
	Pos  int
	Val  byte
	Neg  bool
	Peek bool
}

func (m MS) need() *rx.Need {
	return &rx.Need{N: m.N, Pos: m.Pos, Val: m.Val, Neg: m.Neg, Peek: m.Peek}
}

// MSet is one matcher set: all matchers must match (evaluation order inside a
// set is a JSON-map iteration order, i.e. unspecified). Not wraps the whole
// set into the shipped `not` matcher.
type MSet struct {
	Ms  []MS
	Not bool
}

const (
	HTake = iota // reads K bytes, then calls next (non-terminal)
	HTerm        // terminal recorder
	HSub         // shipped subroute handler with its own route list
)

type HS struct {
	Kind int
	K    int
	Sub  []RS
	// Wrap (HTake only): the handler hands a new connection on, which reports an address of its own (rx.WrapAddr)
	Wrap bool
}

// RS is a route: matcher sets OR'ed (none = match all) and a handler chain.
type RS struct {
	Sets  []MSet
	Chain []HS
}

var aliases = []string{"verif_need", "verif_need2", "verif_need3"}

func setJSON(s MSet) map[string]any {
	inner := map[string]any{}
	for i, m := range s.Ms {
		inner[aliases[i]] = m.need()
	}
	if s.Not {
		return map[string]any{"not": []any{inner}}
	}
	return inner
}

// ToRoutes renders the list in layer4 JSON notation; every route chain starts
// with a mark handler so that an invocation is always visible in the trace.
func ToRoutes(list []RS, prefix string) []rx.R {
	var out []rx.R
	for i, r := range list {
		path := fmt.Sprintf("%s%d", prefix, i)
		var rr rx.R
		for _, s := range r.Sets {
			rr.Match = append(rr.Match, setJSON(s))
		}
		rr.Handle = append(rr.Handle, rx.H("verif_mark", "id", "M|"+path))
		for j, h := range r.Chain {
			id := fmt.Sprintf("%s|%d", path, j)
			switch h.Kind {
			case HTake:
				th := rx.H("verif_take", "id", "K|"+id, "k", h.K)
				if h.Wrap {
					th["wrap"] = true
				}
				rr.Handle = append(rr.Handle, th)
			case HTerm:
				rr.Handle = append(rr.Handle, rx.H("verif_term", "id", "T|"+id))
			case HSub:
				rr.Handle = append(rr.Handle, rx.H("subroute", "routes", ToRoutes(h.Sub, fmt.Sprintf("%s.%d/", path, j)), "matching_timeout", "1s"))
			}
		}
		out = append(out, rr)
	}
	return out
}

func (m MS) String() string {
	if m.N == 0 {
		if m.Neg {
			return "never"
		}
		return "always"
	}
	op := "=="
	if m.Neg {
		op = "!="
	}
	pk := ""
	if m.Peek {
		pk = "~"
	}
	return fmt.Sprintf("%sb[%d]%s%q/n%d", pk, m.Pos, op, m.Val, m.N)
}

func (s MSet) String() string {
	var ps []string
	for _, m := range s.Ms {
		ps = append(ps, m.String())
	}
	out := strings.Join(ps, "&")
	if s.Not {
		return "not(" + out + ")"
	}
	return out
}

func (r RS) String() string {
	var ss []string
	for _, s := range r.Sets {
		ss = append(ss, s.String())
	}
	m := strings.Join(ss, " | ")
	if len(r.Sets) == 0 {
		m = "*"
	}
	var hs []string
	for _, h := range r.Chain {
		switch h.Kind {
		case HTake:
			hs = append(hs, fmt.Sprintf("take%d%s", h.K, map[bool]string{true: "+wrap"}[h.Wrap]))
		case HTerm:
			hs = append(hs, "TERM")
		case HSub:
			hs = append(hs, "sub"+ListString(h.Sub))
		}
	}
	return "{" + m + " -> " + strings.Join(hs, ",") + "}"
}

func ListString(l []RS) string {
	var ps []string
	for _, r := range l {
		ps = append(ps, r.String())
	}
	return "[" + strings.Join(ps, " ") + "]"
}

// ---- three-valued reference semantics of matchers on the available bytes ----

const (
	Y = 1 << iota // yes
	N             // no
	U             // undecided: needs more bytes
)

func msVerdict(m MS, avail []byte) int {
	switch m.need().Verdict(avail) {
	case 1:
		return Y
	case 0:
		return N
	}
	return U
}

// setPossible returns the set of verdicts the matcher set may give on avail
// (more than one when the unspecified evaluation order matters).
func setPossible(s MSet, avail []byte) int {
	anyNo, anyU := false, false
	for _, m := range s.Ms {
		switch msVerdict(m, avail) {
		case N:
			anyNo = true
		case U:
			anyU = true
		}
	}
	var v int
	switch {
	case !anyNo && !anyU:
		v = Y
	case anyNo && !anyU:
		v = N
	case !anyNo && anyU:
		v = U
	default:
		v = N | U
	}
	if s.Not {
		// not(X): yes iff X is decided no; undecided stays undecided
		var w int
		if v&Y != 0 {
			w |= N
		}
		if v&N != 0 {
			w |= Y
		}
		if v&U != 0 {
			w |= U
		}
		return w
	}
	return v
}

// RoutePossible: sets are OR'ed in order; the first set that says yes or is
// undecided determines the outcome; no sets at all match everything.
func RoutePossible(r RS, avail []byte) int {
	if len(r.Sets) == 0 {
		return Y
	}
	out := 0
	for _, s := range r.Sets {
		v := setPossible(s, avail)
		out |= v & (Y | U)
		if v&N == 0 {
			return out // cannot get past this set
		}
	}
	return out | N
}
