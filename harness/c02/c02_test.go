package c02

import (
	"fmt"
	"os"
	"strconv"
	"testing"
	"time"

	"pgregory.net/rapid"

	"github.com/mholt/caddy-l4/layer4"

	"verifharness/hx"
	"verifharness/rx"
)

func TestMain(m *testing.M) { hx.Main(m) }

func envInt(k string, def int) int {
	if v, err := strconv.Atoi(os.Getenv(k)); err == nil {
		return v
	}
	return def
}

// ---------- exhaustive small scope ----------

func need(n, pos int, val byte, neg bool) MS { return MS{N: n, Pos: pos, Val: val, Neg: neg} }

// matcher atoms of the exhaustive scope
func matcherAtoms() [][]MSet {
	return [][]MSet{
		nil,                                             // no matcher: matches everything
		{{Ms: []MS{need(1, 0, 'a', false)}}},            // first byte == a
		{{Ms: []MS{need(1, 0, 'a', true)}}},             // first byte != a
		{{Ms: []MS{need(2, 1, 'a', false)}}},            // second byte == a
		{{Ms: []MS{need(1, 0, 'a', false)}, Not: true}}, // not(first == a)
		{{Ms: []MS{need(0, 0, 0, true)}}},               // never
		{{Ms: []MS{need(2, 1, 'b', false)}}, {Ms: []MS{need(1, 0, 'b', false)}}}, // second==b OR first==b
		{{Ms: []MS{need(1, 0, 'a', false), need(2, 1, 'b', false)}}},             // first==a AND second==b
	}
}

func handlerAtoms() [][]HS {
	return [][]HS{
		{{Kind: HTerm}},
		{{Kind: HTake, K: 0}},
		{{Kind: HTake, K: 1}},
		{{Kind: HTake, K: 1}, {Kind: HTerm}},
		{{Kind: HSub, Sub: []RS{{Sets: []MSet{{Ms: []MS{need(1, 0, 'b', false)}}}, Chain: []HS{{Kind: HTerm}}}}}},
		{{Kind: HSub, Sub: []RS{{Sets: []MSet{{Ms: []MS{need(2, 1, 'a', false)}}}, Chain: []HS{{Kind: HTake, K: 1}}}}}, {Kind: HTerm}},
	}
}

func routeAtoms() []RS {
	ms, hs := matcherAtoms(), handlerAtoms()
	if os.Getenv("VERIF_C02_ATOMS") == "reduced" {
		// a smaller alphabet so that one more route fits into the quick budget
		ms = [][]MSet{ms[0], ms[1], ms[2], ms[3], ms[6]}
		hs = hs[:3]
	}
	var out []RS
	for _, m := range ms {
		for _, h := range hs {
			out = append(out, RS{Sets: m, Chain: h})
		}
	}
	return out
}

// all (stream, segmentation) pairs over {a,b} up to maxLen
type schedule struct {
	stream []byte
	segs   [][]byte
}

func schedules(maxLen int) []schedule {
	var out []schedule
	for l := 0; l <= maxLen; l++ {
		for v := 0; v < 1<<l; v++ {
			s := make([]byte, l)
			for i := range s {
				s[i] = 'a' + byte(v>>i&1)
			}
			nc := 1
			if l > 1 {
				nc = 1 << (l - 1)
			}
			for cm := 0; cm < nc; cm++ {
				var cuts []int
				for i := 1; i < l; i++ {
					if cm>>(i-1)&1 == 1 {
						cuts = append(cuts, i)
					}
				}
				out = append(out, schedule{s, hx.Split(s, cuts)})
			}
		}
	}
	return out
}

func specTraits(l []RS) (hasSub, hasNot, hasNonTerm, needsBytes bool) {
	for _, r := range l {
		if RoutePossible(r, nil)&U != 0 {
			needsBytes = true
		}
		for _, s := range r.Sets {
			if s.Not {
				hasNot = true
			}
		}
		term := false
		for _, h := range r.Chain {
			if h.Kind == HTerm {
				term = true
			}
			if h.Kind == HSub {
				hasSub = true
				a, b, c, d := specTraits(h.Sub)
				hasSub, hasNot, hasNonTerm, needsBytes = hasSub || a, hasNot || b, hasNonTerm || c, needsBytes || d
			}
		}
		if !term {
			hasNonTerm = true
		}
	}
	return
}

func runAndCheck(t hx.TB, top []RS, h handler, sc schedule, end hx.EndMode, class string) bool {
	res := Run(h, sc.segs, end)
	if v := Check(top, sc.stream, end, res); v != nil {
		hx.Fail(t, "C02", v.key, "%s\n  case: %s", v.msg, Describe(top, sc.segs, end, res))
		return false
	}
	hasSub, hasNot, hasNonTerm, needsBytes := specTraits(top)
	fallback := len(res.Events) > 0 && res.Events[len(res.Events)-1].Kind == "fallback"
	marks := 0
	for _, e := range res.Events {
		if e.Kind == "mark" {
			marks++
		}
	}
	nontrivial := len(top) >= 2 && needsBytes && (hasSub || hasNot || fallback || (hasNonTerm && marks >= 2))
	cl := []string{"C02/" + class, fmt.Sprintf("C02/routes-invoked/%d", min(marks, 3))}
	if fallback {
		cl = append(cl, "C02/fallback")
	}
	if len(res.Events) == 0 {
		cl = append(cl, "C02/abandoned")
	}
	if hasSub {
		cl = append(cl, "C02/subroute")
	}
	if hasNonTerm && marks >= 2 {
		cl = append(cl, "C02/continued-after-non-terminal")
	}
	hx.Case(hx.Hash(ListString(top), fmt.Sprint(sc.segs), int(end)), nontrivial, cl...)
	if nontrivial {
		hx.Sample(class+fmt.Sprint(marks, fallback), Describe(top, sc.segs, end, res))
	}
	return true
}

type handler = layer4.Handler

func TestExhaustiveSmallScope(t *testing.T) {
	nRoutes := envInt("VERIF_C02_ROUTES", 2)
	maxLen := envInt("VERIF_C02_STREAM", 3)
	shard, shards := envInt("VERIF_SHARD", 0), max(envInt("VERIF_SHARDS", 1), 1)
	atoms := routeAtoms()
	scheds := schedules(maxLen)
	total := 1
	for i := 0; i < nRoutes; i++ {
		total *= len(atoms)
	}
	lists := 0
	for idx := 0; idx < total; idx++ {
		if idx%shards != shard {
			continue
		}
		top := make([]RS, nRoutes)
		x := idx
		for i := range top {
			top[i] = atoms[x%len(atoms)]
			x /= len(atoms)
		}
		rl, err := rx.Routes(rx.BareCtx(), ToRoutes(top, ""))
		if err != nil {
			t.Fatalf("provision %s: %v", ListString(top), err)
		}
		h := rx.Compile(rl, time.Second, true)
		lists++
		for _, sc := range scheds {
			for _, end := range []hx.EndMode{hx.EndEOF, hx.EndSilentVirtual, hx.EndEOFWithData} {
				if !runAndCheck(t, top, h, sc, end, "exhaustive") {
					return
				}
			}
		}
	}
	hx.Class("C02/exhaustive-route-lists", int64(lists))
	hx.Note("exhaustive scope: all %d^%d route lists (shard %d/%d) x all %d (stream, segmentation) pairs over {a,b} up to length %d x 3 end modes", len(atoms), nRoutes, shard, shards, len(scheds), maxLen)
}

// ---------- random larger instances ----------

func genMS(t *rapid.T) MS {
	n := rapid.IntRange(0, 6).Draw(t, "n")
	m := MS{N: n, Neg: rapid.Bool().Draw(t, "neg"), Peek: rapid.IntRange(0, 4).Draw(t, "peek") == 0}
	if n > 0 {
		m.Pos = rapid.IntRange(0, n-1).Draw(t, "pos")
		m.Val = byte('a' + rapid.IntRange(0, 2).Draw(t, "val"))
	}
	return m
}

func genSets(t *rapid.T) []MSet {
	ns := rapid.IntRange(0, 3).Draw(t, "nsets")
	var out []MSet
	for i := 0; i < ns; i++ {
		nm := rapid.IntRange(1, 3).Draw(t, "nmatchers")
		if rapid.IntRange(0, 7).Draw(t, "emptySet") == 0 {
			// a matcher set without matchers matches every connection, also as one of several OR'ed sets
			out = append(out, MSet{})
			continue
		}
		s := MSet{Not: rapid.IntRange(0, 3).Draw(t, "not") == 0}
		for j := 0; j < nm; j++ {
			s.Ms = append(s.Ms, genMS(t))
		}
		out = append(out, s)
	}
	return out
}

func genList(t *rapid.T, depth int) []RS {
	n := rapid.IntRange(1, 4).Draw(t, "nroutes")
	var out []RS
	for i := 0; i < n; i++ {
		r := RS{Sets: genSets(t)}
		nh := rapid.IntRange(0, 3).Draw(t, "nhandlers")
		for j := 0; j < nh; j++ {
			k := rapid.IntRange(0, 9).Draw(t, "hkind")
			switch {
			case k <= 4:
				r.Chain = append(r.Chain, HS{Kind: HTake, K: rapid.IntRange(0, 3).Draw(t, "k"), Wrap: rapid.IntRange(0, 3).Draw(t, "wrap") == 0})
			case k <= 6 && depth > 0:
				r.Chain = append(r.Chain, HS{Kind: HSub, Sub: genList(t, depth-1)})
			default:
				r.Chain = append(r.Chain, HS{Kind: HTerm})
				j = nh // a terminal handler ends the chain
			}
		}
		out = append(out, r)
	}
	return out
}

func TestRandomInstances(t *testing.T) {
	rapid.Check(t, func(rt *rapid.T) {
		top := genList(rt, 2)
		stream := rapid.SliceOfN(rapid.SampledFrom([]byte("abc")), 0, 64).Draw(rt, "stream")
		cuts := rapid.SliceOfN(rapid.IntRange(1, 8), 0, 10).Draw(rt, "cuts")
		for i := 1; i < len(cuts); i++ {
			cuts[i] += cuts[i-1]
		}
		end := []hx.EndMode{hx.EndEOF, hx.EndSilentVirtual, hx.EndEOFWithData}[rapid.IntRange(0, 2).Draw(rt, "endMode")]
		rl, err := rx.Routes(rx.BareCtx(), ToRoutes(top, ""))
		if err != nil {
			rt.Fatalf("provision %s: %v", ListString(top), err)
		}
		h := rx.Compile(rl, time.Second, true)
		runAndCheck(rt, top, h, schedule{stream, hx.Split(stream, cuts)}, end, "random")
	})
}

// ---- replay tier: minimised histories of seeded changes that were once missed, as plain deterministic cases ----

func TestReplay(t *testing.T) {
	term := []HS{{Kind: HTerm}}
	cases := []struct {
		name string
		top  []RS
		segs []string
		end  hx.EndMode
	}{
		{"stale not-matched verdict after a non-terminal route changed the stream",
			[]RS{{Sets: []MSet{{Ms: []MS{need(2, 1, 'b', false)}}, {Ms: []MS{need(1, 0, 'b', false)}}}, Chain: []HS{{Kind: HTake, K: 1}}},
				{Sets: []MSet{{Ms: []MS{need(1, 0, 'a', false)}}}, Chain: term},
				{Sets: []MSet{{Ms: []MS{need(2, 1, 'a', false)}}}, Chain: term}},
			[]string{"b", "a"}, hx.EndEOF},
		{"an undecided OR'ed set must not be overwritten by a later set that rejects",
			[]RS{{Sets: []MSet{{Ms: []MS{need(4, 3, 'a', false)}}, {Ms: []MS{need(1, 0, 'z', false)}}}, Chain: term}},
			[]string{"aa", "aa"}, hx.EndEOF},
		{"a terminal route after a non-terminal one ends routing",
			[]RS{{Sets: []MSet{{Ms: []MS{need(1, 0, 'p', false)}}}, Chain: []HS{{Kind: HTake, K: 1}}},
				{Sets: []MSet{{Ms: []MS{need(1, 0, 'q', false)}}}, Chain: term},
				{Chain: []HS{{Kind: HTake, K: 0}}}},
			[]string{"pq", "rest"}, hx.EndEOF},
		{"nested list falls through to the handler after the subroute, then to the following routes",
			[]RS{{Chain: []HS{{Kind: HSub, Sub: []RS{{Sets: []MSet{{Ms: []MS{need(2, 1, 'x', false)}}}, Chain: term}}}, {Kind: HTake, K: 1}}},
				{Sets: []MSet{{Ms: []MS{need(1, 0, 'b', false)}, Not: true}}, Chain: term}},
			[]string{"a", "b", "c"}, hx.EndSilentVirtual},
		{"end of stream reported by the read that returns the last bytes: the bytes still count (fixed by bc24f37)",
			[]RS{{Sets: []MSet{{Ms: []MS{need(1, 0, 'a', false)}}}, Chain: term}},
			[]string{"a"}, hx.EndEOFWithData},
		{"the same when no route matches: the fallback gets the stream",
			[]RS{{Sets: []MSet{{Ms: []MS{need(2, 1, 'b', false)}}}, Chain: term}},
			[]string{"a", "a"}, hx.EndEOFWithData},
	}
	for _, c := range cases {
		rl, err := rx.Routes(rx.BareCtx(), ToRoutes(c.top, ""))
		if err != nil {
			t.Fatalf("%s: %v", c.name, err)
		}
		var segs [][]byte
		var stream []byte
		for _, s := range c.segs {
			segs = append(segs, []byte(s))
			stream = append(stream, s...)
		}
		if !runAndCheck(t, c.top, rx.Compile(rl, time.Second, true), schedule{stream, segs}, c.end, "replay") {
			t.Logf("replay case failed: %s", c.name)
		}
	}
	hx.Class("C02/replay-cases", int64(len(cases)))
}
