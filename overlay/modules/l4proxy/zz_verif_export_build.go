//go:build verif && verif_proxy && verif_proxy_build

// Export shim for building upstreams directly (used by the pool-state tests of C10 only: it names the field through
// which an upstream reaches its passive health-check policy).
package l4proxy

import "github.com/caddyserver/caddy/v2"

// VerifUpstream builds an Upstream with the given peer states without dialing or provisioning.
// maxFails > 0 attaches a passive health-check policy with that max_fails.
func VerifUpstream(dial []string, ps []VerifPeer, maxConns, maxFails int) *Upstream {
	u := &Upstream{Dial: dial, MaxConnections: maxConns}
	for range ps {
		u.peers = append(u.peers, &peer{})
	}
	if maxFails > 0 {
		u.healthCheckPolicy = &PassiveHealthChecks{MaxFails: maxFails, FailDuration: caddy.Duration(1)}
	}
	for i, p := range ps {
		u.VerifSetPeer(i, p)
	}
	return u
}
