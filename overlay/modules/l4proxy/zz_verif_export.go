//go:build verif && verif_proxy

// Export shim injected into package l4proxy with `go test -overlay` by the
// verification harness in /verif (build tags verif + verif_proxy: compiled for the C10 and C11 checks only,
// because it depends on the fields of peer and Upstream). It only adds functions.
package l4proxy

import "sync/atomic"

// VerifPeer is the observable state of one peer.
type VerifPeer struct {
	Unhealthy bool
	Fails     int
	NumConns  int
}

// VerifSetPeer overwrites the state of peer i.
func (u *Upstream) VerifSetPeer(i int, p VerifPeer) {
	var un int32
	if p.Unhealthy {
		un = 1
	}
	atomic.StoreInt32(&u.peers[i].unhealthy, un)
	atomic.StoreInt32(&u.peers[i].fails, int32(p.Fails))
	atomic.StoreInt32(&u.peers[i].numConns, int32(p.NumConns))
}

// VerifPeerState reads the counters of peer i.
func (u *Upstream) VerifPeerState(i int) VerifPeer {
	return VerifPeer{
		Unhealthy: atomic.LoadInt32(&u.peers[i].unhealthy) != 0,
		Fails:     int(atomic.LoadInt32(&u.peers[i].fails)),
		NumConns:  int(atomic.LoadInt32(&u.peers[i].numConns)),
	}
}

func (u *Upstream) VerifNumPeers() int   { return len(u.peers) }
func (u *Upstream) VerifAvailable() bool { return u.available() }
func (u *Upstream) VerifTotalConns() int { return u.totalConns() }

// VerifUpstreams exposes the provisioned upstream pool of a handler.
func (h *Handler) VerifUpstreams() UpstreamPool { return h.Upstreams }
