//go:build verif && verif_tls

// Export shim injected into package l4tls with `go test -overlay` by the
// verification harness in /verif. It only adds a function.
package l4tls

// VerifParseRawClientHello exposes the full result of the module's ClientHello parser.
func VerifParseRawClientHello(data []byte) ClientHelloInfo { return parseRawClientHello(data) }
