//go:build verif

// Export shim injected into package layer4 with `go test -overlay` by the
// verification harness in /verif. It only adds functions; nothing in the
// repository is replaced. It is not part of mholt/caddy-l4.
package layer4

import (
	"net"

	"go.uber.org/zap"
)

// VerifPrefetchChunkSize exposes the unexported prefetch chunk size.
const VerifPrefetchChunkSize = prefetchChunkSize

// VerifNewConnection builds a Connection the way Server.handle does and
// preloads its matching buffer with a copy of prefetched.
func VerifNewConnection(underlying net.Conn, prefetched []byte, logger *zap.Logger) *Connection {
	if logger == nil {
		logger = zap.NewNop()
	}
	buf := make([]byte, 0, prefetchChunkSize)
	buf = append(buf, prefetched...)
	return WrapConnection(underlying, buf, logger)
}

// VerifFreeze / VerifUnfreeze expose the matching mode switch.
func (cx *Connection) VerifFreeze()   { cx.freeze() }
func (cx *Connection) VerifUnfreeze() { cx.unfreeze() }

// VerifPrefetch exposes one prefetch round.
func (cx *Connection) VerifPrefetch() error { return cx.prefetch() }

// VerifBufLen reports how many bytes are currently held in the matching buffer.
func (cx *Connection) VerifBufLen() int { return len(cx.buf) }

// VerifHandle runs the server's connection handling on conn (as serve does per accepted connection).
func (s *Server) VerifHandle(conn net.Conn) { s.handle(conn) }

// VerifServe runs the TCP accept loop.
func (s *Server) VerifServe(ln net.Listener) error { return s.serve(ln) }

// VerifServePacket runs the UDP demultiplexing loop.
func (s *Server) VerifServePacket(pc net.PacketConn) error { return s.servePacket(pc) }
