//go:build verif && verif_udp

// Export shim for the UDP virtual connection (build tags verif + verif_udp, used by the C05 check only: it depends
// on the fields of packet and packetConn).
package layer4

import "net"

// VerifPacketConn is a handle on a packetConn built outside servePacket.
type VerifPacketConn struct {
	net.Conn
	pc      *packetConn
	closeCh chan *packetConn
}

// VerifNewPacketConn builds the virtual UDP connection servePacket would build for addr.
func VerifNewPacketConn(under net.PacketConn, addr net.Addr) *VerifPacketConn {
	closeCh := make(chan *packetConn, 10)
	pc := &packetConn{
		PacketConn: under,
		readCh:     make(chan *packet, 5),
		addr:       addr,
		closeCh:    closeCh,
		done:       make(chan struct{}),
	}
	return &VerifPacketConn{Conn: pc, pc: pc, closeCh: closeCh}
}

// Real returns the virtual connection itself, with its own dynamic type (it is a net.PacketConn too), as
// Server.handle gets it from the server loop.
func (v *VerifPacketConn) Real() net.Conn { return v.pc }

// DrainCloseNotifications consumes, in the background, the notifications the
// virtual connection sends to its (absent) server loop.
func (v *VerifPacketConn) DrainCloseNotifications() {
	go func() {
		for range v.closeCh {
		}
	}()
}

// Feed delivers one datagram to the virtual connection as the server loop would.
func (v *VerifPacketConn) Feed(data []byte) {
	buf := udpBufPool.Get().([]byte)
	n := copy(buf, data)
	v.pc.readCh <- &packet{pooledBuf: buf, n: n, addr: v.pc.addr}
}

// TryFeed is Feed that gives up (returning false) when the association's queue is full.
func (v *VerifPacketConn) TryFeed(data []byte) bool {
	buf := udpBufPool.Get().([]byte)
	n := copy(buf, data)
	select {
	case v.pc.readCh <- &packet{pooledBuf: buf, n: n, addr: v.pc.addr}:
		return true
	default:
		udpBufPool.Put(buf)
		return false
	}
}
