"""Per-property run configuration for bin/vcheck.

runs: list of test-binary invocations; each has
  name, pkg (harness package), run (-test.run regex), rapid_checks {quick,thorough},
  shards {quick,thorough}, timeout {quick,thorough} (s), race, env, tiers, fuzz/fuzztime.
"""

CHECKS = {
    "C04": {
        "rule": ("inputs drawn per matcher/handler from: structure-aware generators that visit boundary values of every "
                 "length-bearing field while keeping lengths self-consistent, byte-level mutations and every-point truncations "
                 "of them, cross-protocol messages, short text lines with every line ending, and uniform noise; 45 matcher "
                 "configurations (TCP- and UDP-like), sequences of 2-4 matchers (half of them of the same kind, a share reserved for QUIC) consulted for ONE connection as "
                 "the routes of a list are, and 6 handler chains through RouteList.Compile with generated segmentation. Non-trivial = not uniform noise; "
                 "distinct = distinct (target, input bytes, segmentation)."),
        "assumptions": [
            "allocation is measured as runtime.MemStats.TotalAlloc delta around one Match/Handle call in a single-goroutine process; limit 32 x MaxMatchingBytes (256 KiB), doubled for the crypto/tls handshake",
            "QUIC inputs are the Initial packets of the repository's own test plus synthetic long-header packets; no independent QUIC client is driven",
        ],
        "min_classes": {"quick": {"C04/mutated": 1000, "C04/truncated": 1000, "C04/well-formed-boundary": 3000, "C04/short-lines": 2000, "C04/several-matchers-one-connection": 1000},
                        "thorough": {"C04/mutated": 10000}},
        "runs": [
            {"name": "replay+rapid", "pkg": "./c04", "run": "TestReplay|TestMatchersNoPanicBoundedAlloc|TestHandlersNoPanicBoundedAlloc|TestSeveralMatchersOneConnection",
             "rapid_checks": {"quick": 1500, "thorough": 60000}, "shards": {"quick": 1, "thorough": 16},
             "timeout": {"quick": 600, "thorough": 7200}, "oom_is_violation": True},
            {"name": "fuzz", "pkg": "./c04", "fuzz": "FuzzMatchers", "fuzztime": {"thorough": "600s"}, "tiers": ("thorough",)},
        ],
    },
    "C18": {
        "rule": ("byte strings of every length 0..max+3 around each codec's size bounds (enumerated) plus rapid-drawn lengths with random and "
                 "structure-shaped content (valid opcode, consistent trailing length, chunked winbox bodies with surplus/missing bytes); "
                 "messages with fields over their full ranges for serialise-then-parse; 2-6 accepted messages serialised one after the other or concurrently, each of which "
                 "must still read as its input afterwards. 16 parser/serialiser pairs. Non-trivial = input "
                 "accepted (round trip exercised) or length within 3 of a bound; distinct = distinct (codec, bytes)."),
        "assumptions": ["winbox: no upper length bound is asserted (the protocol documents none); RDPToken/MessageTransport are variable-length by definition"],
        "min_classes": {"quick": {"C18/accepted": 5000, "C18/message-roundtrip": 1000, "C18/several-messages-alive": 1000}},
        "runs": [
            {"name": "replay+rapid", "pkg": "./c18", "run": ".", "rapid_checks": {"quick": 3000, "thorough": 200000},
             "shards": {"quick": 1, "thorough": 16}, "timeout": {"quick": 600, "thorough": 7200}},
            {"name": "fuzz", "pkg": "./c18", "fuzz": "FuzzCodecs", "fuzztime": {"thorough": "300s"}, "tiers": ("thorough",)},
        ],
    },
    "C06": {
        "rule": ("per stream-oriented matcher and filter configuration (28 targets): a first message from the protocol's structure-aware generator "
                 "(one in four byte-mutated), optionally followed by arbitrary trailing bytes; EVERY prefix length 0..len(stream) is evaluated on a fresh "
                 "connection through MatcherSet.Match. Non-trivial = whole message matches and the prefix verdicts form >= 3 regions, or a mutated stream "
                 "reaching 'no' after at least one 'need more'; distinct = distinct (matcher, config, stream). Sets of two matchers are compared with the "
                 "composition of their single verdicts on every prefix. Router level (metamorphic): 3-10 routes with the real protocol matchers in a generated order, "
                 "optionally a stream-changing route in front (PROXY header stripped by the proxy_protocol handler, or k bytes taken), one stream delivered whole and in "
                 "2-4 generated fragmentations (cuts early, around the header end, anywhere) must reach the same handler with the same bytes; judged only where at most one "
                 "route behind the stream-changing one ever says yes on any prefix and keeps saying yes (others counted as excluded)."),
        "assumptions": ["datagram matchers (quic, wireguard, UDP dns/openvpn) are out of scope of the fragmentation clauses", "yes -> no when trailing bytes arrive is allowed (dns, rdp, winbox, openvpn do it on purpose)"],
        "min_classes": {"quick": {"C06/full-match": 1500, "C06/mutated": 1000, "C06/matcher-set-of-two": 300, "C06/routed/stream-changed-before-match": 150}},
        "runs": [
            {"name": "replay+rapid", "pkg": "./c06", "run": ".", "rapid_checks": {"quick": 400, "thorough": 40000},
             "shards": {"quick": 1, "thorough": 16}, "timeout": {"quick": 600, "thorough": 7200}},
        ],
    },
    "C02": {
        "rule": ("(1) exhaustive small scope: every list of N routes over 48 route atoms (8 matcher structures incl. and/or/not and match-all x 6 handler chains "
                 "incl. terminal, non-terminal and two subroute forms) x every stream over {a,b} up to length L x every segmentation x three end modes "
                 "(client closes / closes with the end of stream reported by the read that returns the last bytes / silent until the virtual-time deadline); quick N=2 L=3 plus N=3 L=3 over a reduced alphabet of 15 atoms, thorough N=3 L=4 over all 48. (2) rapid: lists of <=4 routes, nesting <=2, "
                 "1-3 matchers per set, `not`, peek/read matchers, streams <=64 over {a,b,c}. Oracle: validity predicate over the recorded trace. "
                 "Non-trivial = >=2 routes, some route needs bytes before it can be decided, and one of: subroute, `not`, fallback ran, continuation after a "
                 "non-terminal route; distinct = distinct (route list, segmentation, end mode)."
                 " Non-terminal handlers may hand a wrapped connection on (as tls / proxy_protocol do), which reports an address of its own: every later handler must be given that one."),
        "exhaustive": {"quick": False, "thorough": False},
        "assumptions": ["harness matchers are pure monotone functions of the available bytes, so the verdict a route had when it was invoked is recomputed from the recorded available bytes",
                        "evaluation order of several matchers inside one set is unspecified (JSON map): such sets are judged three-valued with ambiguity, never guessed",
                        "a connection that ends (EOF/timeout) while a route is undecided is not required to reach the fallback"],
        "min_classes": {"quick": {"C02/fallback": 5000, "C02/subroute": 20000, "C02/continued-after-non-terminal": 5000, "C02/random": 2000}},
        "runs": [
            {"name": "exhaustive", "pkg": "./c02", "run": "TestExhaustiveSmallScope",
             "env": {"VERIF_C02_ROUTES": {"quick": 2, "thorough": 3}, "VERIF_C02_STREAM": {"quick": 3, "thorough": 4}},
             "shards": {"quick": 4, "thorough": 16}, "timeout": {"quick": 600, "thorough": 7200}},
            {"name": "exhaustive3", "pkg": "./c02", "run": "TestExhaustiveSmallScope", "tiers": ("quick",),
             "env": {"VERIF_C02_ROUTES": 3, "VERIF_C02_STREAM": 3, "VERIF_C02_ATOMS": "reduced"},
             "shards": {"quick": 4}, "timeout": {"quick": 600}},
            {"name": "random", "pkg": "./c02", "run": "TestRandomInstances|TestReplay", "rapid_checks": {"quick": 6000, "thorough": 400000},
             "shards": {"quick": 1, "thorough": 16}, "timeout": {"quick": 600, "thorough": 7200}},
        ],
    },
    "C01": {
        "rule": ("a position-coded client stream (0 .. 5 x the matching limit, sizes biased to 0/1/2047-2049/4095-4097/8191-8193/10239-10241, optionally "
                 "preceded by a PROXY v1/v2 header) delivered in a generated segmentation (one read, exact 2 KiB chunks, 1-byte trickle, random cuts) "
                 "through a generated deterministic route list: leading/trailing decoy routes whose matchers read to generated depths, matchers "
                 "verif_need/peek/regexp{count}/proxy_protocol/tls, handler chains of verif_take{k}, proxy_protocol, throttle, tee, nested subroute "
                 "(depth <= 3), ended by a recorder, echo or the draining fallback; the same plans behind real TLS termination (crypto/tls client, wire "
                 "re-segmented) and through Server.handle over loopback TCP. Oracle: a reference consumer model, byte equality per recorder, tee branch "
                 "and echoed stream. Non-trivial = a matcher inspected >=1 byte and a handler then read >=1 byte; distinct = distinct (routes, stream, cuts)."),
        "assumptions": ["each generated list has exactly one matching route: which of several decidable routes runs first is C02's subject",
                        "matcher depths stay within the matching-buffer room (the limit also counts consumed bytes still held; exhaustion is C05's subject)",
                        "PROXY v2 headers carry no TLVs here (the parser in use rejects them; see C12)"],
        "min_classes": {"quick": {"C01/tee": 500, "C01/proxy_protocol": 500, "C01/subroute": 1000, "C01/tls": 300, "C01/stream-larger-than-limit": 300,
                                  "C01/matcher-deeper-than-one-chunk": 200, "C01/server-tcp": 200, "C01/take": 2000}},
        "runs": [
            {"name": "scripted", "pkg": "./c01", "run": "TestReplay|TestStreamIntegrity$", "rapid_checks": {"quick": 6000, "thorough": 400000},
             "shards": {"quick": 2, "thorough": 16}, "timeout": {"quick": 600, "thorough": 7200}},
            {"name": "tls+server", "pkg": "./c01", "run": "TestStreamIntegrityBehindTLS|TestStreamIntegrityServerTCP", "rapid_checks": {"quick": 700, "thorough": 30000},
             "shards": {"quick": 2, "thorough": 16}, "timeout": {"quick": 600, "thorough": 7200}},
        ],
    },
    "C10": {
        "tags": ["verif_proxy"],
        "rule": ("pools of 0..8 upstreams x 1..3 peers with generated unhealthy flags, fails vs max_fails (0..2) and connection counts vs max_connections (0..3), client "
                 "addresses v4/v6/no-port, random_choose 0..10, all six policies loaded as Caddy modules; selection sequences (|A|-windows for round_robin, 12 draws for "
                 "random policies) and rapid state-machine histories with state changes between calls; plus every availability vector of pools of 0..5 upstreams for three "
                 "ways of being unavailable (exhaustive); plus pools provisioned by the proxy handler itself from generated configurations (max_connections per upstream; "
                 "max_fails, fail_duration, unhealthy_connection_count given or left to their documented defaults) whose peer counters are then set, selected from by the "
                 "handler's own policy instance. Oracle: reference availability set A recomputed from the generated state (and, for provisioned pools, the documented "
                 "meaning of the configuration). Non-trivial = pool >= 2 with a non-empty "
                 "proper subset available; distinct = distinct (pool state, policy, parameters, client address)."),
        "assumptions": ["pool state is injected through an overlay export shim (VerifUpstream); the module's own available() is cross-checked against the reference predicate"],
        "min_classes": {"quick": {"C10/policy/random_choose": 1500, "C10/policy/round_robin": 1500, "C10/multi-peer": 3000, "C10/sequence": 1500, "C10/provisioned": 4000, "C10/provisioned/max-fails-defaulted": 500}},
        "runs": [
            {"name": "policies", "pkg": "./c10", "run": ".", "tags": ["verif_proxy_build"], "rapid_checks": {"quick": 8000, "thorough": 400000},
             "shards": {"quick": 1, "thorough": 16}, "timeout": {"quick": 600, "thorough": 7200}},
            # pools provisioned by the handler itself; a package of its own that needs the peer-state accessors only
            {"name": "provisioned", "pkg": "./c10p", "run": ".", "rapid_checks": {"quick": 8000, "thorough": 400000},
             "shards": {"quick": 1, "thorough": 16}, "timeout": {"quick": 600, "thorough": 7200}},
        ],
    },
    "C12": {
        "rule": ("receive: headers from an independent encoder (v1 TCP4/TCP6/UNKNOWN; v2 PROXY TCP4/TCP6/UDP4/UDP6, LOCAL with and without an address block, with 0-3 TLVs), "
                 "payloads 0..20 KiB, header split at a generated point / at the boundary / byte-wise / coalesced with the payload, allow lists (none, matching, non-matching, "
                 "overlapping+duplicate, other family) with peers v4/v6, with and without a prefetching proxy_protocol matcher; plus every split point of 8 header kinds. "
                 "Observed: bytes, addresses and placeholders seen by a recorder behind the handler and remote_ip/local_ip matchers in a following subroute. "
                 "send: proxy handler v1/v2 to 1-3 loopback peers, client v4/v6, with a received header first (composition), parsed by an independent parser; and a server-speaks-first "
                 "exchange in which the upstream must hold a complete header while the client is still silent, answers the end of the client's stream with a last line, and one client in 400 waits 3.3 s before sending. "
                 "Non-trivial = header split across reads or coalesced with payload, TLVs, allow-list miss, composition or prefetched bytes; distinct = distinct case."
                 " Allow lists also in IPv4-mapped notation (membership by package net)."),
        "assumptions": ["v2 headers with TLVs are rejected by the PROXY protocol library in use: then the connection must fail closed (no handler runs); acceptance is not demanded",
                        "v1 UNKNOWN declares no addresses; what later matchers see is not judged (the library reports an empty TCP address)",
                        "v1 cannot carry UDP addresses: composition UDP->v1 is not judged"],
        "min_classes": {"quick": {"C12/outcome/accepted": 1500, "C12/outcome/passed-through": 300, "C12/outcome/rejected": 50, "C12/composition": 100, "C12/every-split-cases": 500, "C12/send-server-speaks-first": 500}},
        "runs": [
            {"name": "recv", "pkg": "./c12", "run": "TestReceive", "rapid_checks": {"quick": 3000, "thorough": 200000},
             "shards": {"quick": 1, "thorough": 16}, "timeout": {"quick": 600, "thorough": 7200}},
            # the sending side runs over real loopback sockets (1-3 upstream connections per case): the number of cases is
            # sized so that a campaign does not exhaust the ephemeral ports (TIME_WAIT lasts a minute)
            {"name": "send", "pkg": "./c12", "run": "TestSend", "rapid_checks": {"quick": 3000, "thorough": 12000},
             "shards": {"quick": 1, "thorough": 16}, "timeout": {"quick": 600, "thorough": 7200}},
        ],
    },
    "C16": {
        "rule": ("generated handler configurations (command subsets in any case and via placeholders, default commands; credential maps with empty names, empty passwords, "
                 "placeholders, unset placeholders) x generated client byte scripts (version, method lists, user/pass sub-negotiation right/wrong/unknown/empty, exactly a configured entry with its placeholders resolved - usable or not -, its trimmed or re-split form, a known user with another password, command 0-255 "
                 "samples, IPv4/domain/IPv6/garbage address types, truncations) through the real handler over loopback TCP with a loopback target listener; in a third of the cases 0-2 other socks5 handlers with generated configurations of their own are provisioned before and after the handler under test, one of them from the same configuration text while its placeholders had other values (rotated secrets). Oracle (safety): "
                 "target accepts / REP=0 / new UDP socket only if the configuration permits the command for that client. Non-trivial = credentials configured and a "
                 "syntactically valid request; distinct = distinct (config, session)."
                 " Entries longer than 255 bytes (unusable) with clients presenting their first 255 bytes."),
        "assumptions": ["the reference reading of the configuration comes from the handler's documentation: default commands CONNECT+ASSOCIATE, credentials with an empty (resolved) user name are unusable",
                        "BIND is answered 'command not supported' by the library even when enabled; only safety is judged"],
        "min_classes": {"quick": {"C16/served": 25, "C16/must-refuse": 600, "C16/may-serve": 60, "C16/generated+siblings": 300}},
        "runs": [
            {"name": "sessions", "pkg": "./c16", "run": ".", "rapid_checks": {"quick": 500, "thorough": 20000},
             "shards": {"quick": 4, "thorough": 16}, "timeout": {"quick": 600, "thorough": 7200}},
        ],
    },
    "C17": {
        "rule": ("generated throttle configurations: per-connection and/or total rate log-uniform 1 KB/s..1 MB/s, bursts 1 B..64 KiB or the handler default, latency 0..200 ms; "
                 "1..8 concurrent connections on one handler; reader buffers 1 B..64 KiB; streams of about burst + rate x 0.05..0.45 s; clients that have everything ready "
                 "or trickle a few bytes every 5..60 ms; one case in ten configures bursts (1 B..4 KiB) and no rate, where no more than the burst may ever pass (1..4 "
                 "connections, cancelled after 25 ms, delivered bytes must be a prefix of the stream). Every read on the underlying scripted connection is logged with its completion time. Oracle (one-sided): cumulative "
                 "bytes <= burst + rate x (t - first read attempt) per connection and summed for the total limit; first read not before entry + latency - 5 ms; bytes "
                 "delivered == stream. Non-trivial = stream > 2 x burst (>= 2 limiter waits) or >= 2 connections under a total limit; distinct = distinct case."
                 " In a quarter of the cases throttle is the last handler of a route of its own and the reader sits in the next route."),
        "assumptions": ["time is read after the observed read returned and the reference instant before the first read is attempted, so scheduling delay can only loosen the bound (no false 'too fast')",
                        "tolerance: 1 byte per connection; for the total limit shared by n > 1 connections also total rate x 1 ms x n (golang.org/x/time/rate credits an interval twice when a caller with an older time stamp gets the lock later)"],
        "min_classes": {"quick": {"C17/per-connection-limit": 80, "C17/total-limit-shared": 30, "C17/latency": 50, "C17/trickling-client": 50, "C17/burst-only": 10, "C17/throttle-in-a-route-of-its-own": 25}},
        "runs": [
            {"name": "throttle", "pkg": "./c17", "run": ".", "rapid_checks": {"quick": 40, "thorough": 1500},
             "shards": {"quick": 8, "thorough": 16}, "timeout": {"quick": 600, "thorough": 7200}},
        ],
    },
    "C05": {
        "tags": ["verif_udp"],
        "rule": ("real-time cases run 16 at a time: TCP through Server.handle on a scripted connection, UDP through the real packetConn fed by the harness; matching timeout "
                 "150-600 ms (thorough: -2 s) incl. sub-second values, start aligned to a generated tenth of the wall-clock second, client silent / trickling one byte every 2-40 ms / "
                 "flooding, route lists: always-undecided (read and peek matchers), decided-no + undecided, shipped http matcher, matcher error after n bytes, matcher error followed "
                 "by a match-all route, nested subroute with its own timeout, match-then-slow-handler reading after the deadline. Oracle: one-sided timing (never early: >= timeout - 5 ms "
                 "measured around the call; not later than timeout + max(1 s, timeout), re-tried 3x in isolation), bytes buffered <= limit + one chunk, no handler/fallback after "
                 "failed matching, connection closed, late data reaches the matched handler. Non-trivial = sub-second timeout, non-zero phase or non-silent schedule."),
        "assumptions": ["upper time bounds are judged with slack >= 1 s and only if they reproduce three times in isolation; lower bounds are exact up to 5 ms",
                        "UDP cases use the virtual connection without the server loop (closing on failure is covered on the TCP path and in C09)"],
        "min_classes": {"quick": {"C05/udp": 40, "C05/tcp": 80, "C05/schedule/trickle": 40, "C05/routes/subroute": 8, "C05/routes/match-then-slow": 8, "C05/routes/nonterminal-then-never": 8, "C05/routes/subroute-fallthrough-then-slow": 8, "C05/routes/consume-then-never": 8, "C05/routes/never-or-no": 8}},
        "runs": [
            {"name": "bounds", "pkg": "./c05", "run": ".", "rapid_checks": {"quick": 6, "thorough": 80},
             "shards": {"quick": 5, "thorough": 16}, "timeout": {"quick": 600, "thorough": 7200}},
        ],
    },
    "C09": {
        "idle_overlay": True,
        "rule": ("rapid state machine over Server.servePacket on an in-memory PacketConn (arrival order = generated order): datagrams from 1-4 client addresses of 1..9000 bytes "
                 "tagged with client and sequence number, bursts of 6-40 (more than the channel capacities), slow consumers, handlers that finish (at once or after 1-30 ms) "
                 "with 0-12 datagrams racing with the end of the association, floods of datagrams that match no route, a stampede (8-14 other associations end while the loop is "
                 "handing a burst to a client whose handler does not read), pauses, idle expiry (timeout shortened to 150 ms through "
                 "a generated overlay of layer4/server.go); then every client keeps sending until it is served again, and the socket is closed. Oracle: invariants over the "
                 "recorded deliveries/replies/associations (a client whose association never ended gets every datagram; suspected losses are reproduced on fresh servers "
                 "before they count) and no panic or wedge of the loop. Non-trivial = >= 2 clients and an association that ended followed by more "
                 "datagrams, or > 30 deliveries; distinct = distinct history."
                 " Client addresses are UDP/IPv4, zoned IPv6 or unixgram paths; a stampede variant lets clients whose association has ended send again while the loop is held up (two or more of those datagrams lost = violation)."),
        "assumptions": ["handlers always drain their association (bounded sleeps), so a wedged loop cannot be blamed on them",
                        "datagrams that are still queued when an association ends may be dropped (UDP); loss is not a violation, cross-delivery, duplication and reordering are",
                        "interleavings of Close with the loop are reached by volume and generated delays, not enumerated"],
        "min_classes": {"quick": {"C09/association-ended-then-more": 60, "C09/idle-overlay-active": 50, "C09/client-addresses/unixgram": 15, "C09/late-datagrams-for-ended-associations-while-the-loop-was-held": 100}},
        "runs": [
            {"name": "demux", "pkg": "./c09", "run": "TestDemux", "rapid_checks": {"quick": 30, "thorough": 1500}, "rapid_steps": {"quick": 25, "thorough": 40},
             "shards": {"quick": 6, "thorough": 16}, "timeout": {"quick": 600, "thorough": 7200}},
            {"name": "idle-expiry-under-load", "pkg": "./c09", "run": "TestIdleExpiryWhileNotificationsPile", "rapid_checks": {"quick": 10, "thorough": 300},
             "shards": {"quick": 4, "thorough": 16}, "timeout": {"quick": 600, "thorough": 7200}},
        ],
    },
    "C13": {
        "rule": ("batches of 2-24 concurrent connections through ListenerWrapper.WrapListener over a loopback listener (public API only); the first byte of a stream selects its fate: "
                 "terminal echo route, matcher error, matching timeout (silent client), fall-through after 1 / 3000 / 8192 / 600 prefetched bytes with 0 / 5 / 2000 / all of them "
                 "consumed by a non-terminal handler, no route matches, TLS-terminated then falling through; streams up to ~20 KiB, segmented or not; the Accept consumer pauses "
                 "0-6 ms between accepts and may start 10-80 ms late (hand-over channel exceeded); the listener is closed at the end or after 0-60 ms (connections in flight). "
                 "Oracle: per connection delivered exactly once with exactly its unconsumed stream (TLS: plaintext and ConnectionState) or never delivered and closed; Accept "
                 "reports net.ErrClosed after Close and keeps doing so; no goroutine with a layer4.(*listener) frame after 5 s. Plus single connections through routes whose "
                 "matchers never read (remote_ip / local_ip / not), handed over at once, whose client sends 0-1.5 matching timeouts later to a consumer that arms no deadline. Non-trivial = >= 2 outcome kinds with a "
                 "fall-through that carried prefetched bytes."
                 " In a third of the batches the underlying listener reports a temporary error (EMFILE) once or twice."),
        "assumptions": ["after an early close a pending connection may either be delivered once or be closed", "timing is only used as a bound on waiting, never as a verdict on its own"],
        "min_classes": {"quick": {"C13/early-close": 20, "C13/slow-consumer": 40, "C13/no-consumer-until-close": 10, "C13/delivered": 400, "C13/hand-over-without-prefetch": 100, "C13/underlying-accept-failed-temporarily": 15}},
        "runs": [
            {"name": "wrapper", "pkg": "./c13", "run": ".", "rapid_checks": {"quick": 40, "thorough": 2500},
             "shards": {"quick": 4, "thorough": 16}, "timeout": {"quick": 600, "thorough": 7200}},
        ],
    },
    "C08": {
        "rule": ("batches of 2-64 simultaneous tagged connections (arrival jitter 0-2 ms, streams straddling the 2 KiB pooled buffer, segmented or not) through ONE shared server "
                 "configuration on Server.serve over loopback TCP: echo, deep matcher, tee, subroute with a consuming handler, shared throttle limiter, proxy with each of the six "
                 "selection policies over a shared pool, a two-peer upstream whose peers both talk, the OpenVPN matcher in auth mode with varying digests; run at GOMAXPROCS 1, 2, 4 "
                 "and 16, and the same workloads (<= 24 connections) under the Go race detector; likewise batches of 2-24 simultaneous UDP clients (1-5 datagrams of 16 B..9000 B "
                 "each, most larger than one prefetch chunk) on Server.servePacket over an in-memory socket through echo, a 3000-byte-deep matcher, 64-byte throttled reads and "
                 "a tee. Oracle: every connection gets back exactly its own stream as it would alone (UDP: every datagram sent to a client is the next bytes of its own stream); any "
                 "race report with a caddy-l4 frame is a violation. Non-trivial = >= 2 connections overlapping in time (measured); distinct = distinct batch. The listener-wrapper "
                 "hand-over under slow consumers is exercised by C13."),
        "assumptions": ["interleavings are sampled, not enumerated; the race detector only sees executed accesses"],
        "min_classes": {"quick": {"C08/race-detector-run": 20, "C08/gomaxprocs/1": 10, "C08/gomaxprocs/16": 10, "C08/workload/proxy-two-peers": 20, "C08/workload/openvpn-auth-echo": 20, "C08/workload/tee-echo": 20, "C08/workload/tls-sni-a-echo": 20, "C08/workload/tls-sni-b-take1-echo": 20, "C08/workload/udp-small-reads-echo": 40, "C08/workload/udp-deep-match-echo": 40, "C08/udp-everything-echoed": 100, "C08/workload/h2-victim-host-echo": 20, "C08/workload/h2-undefined-table-entry": 20, "C08/workload/tls-sni-c-proxied-over-tls": 20, "C08/workload/tls-sni-d-proxied-over-tls": 20, "C08/workload/subroute-fallthrough-echo": 20}},
        "runs": [
            # (SSL_CERT_FILE: the harness's TLS upstream is verified by the proxy against the system roots - for this process, its own certificate)
            {"name": "crosstalk", "pkg": "./c08", "run": ".", "rapid_checks": 40, "cpu": "1,2,4,16", "tiers": ("quick",),
             "env": {"SSL_CERT_FILE": "$VERIF/harness/c08/testdata/upstream-root.pem"}, "shards": 1, "timeout": 600},
            {"name": "race", "pkg": "./c08", "run": ".", "race": True, "rapid_checks": 120, "tiers": ("quick",),
             "env": {"SSL_CERT_FILE": "$VERIF/harness/c08/testdata/upstream-root.pem"}, "shards": 1, "timeout": 900},
            # (thorough: the UDP test has runs of its own - its associations outlive each case by the server's 30 s idle
            #  timeout, and the test paces itself so that a bounded number of them is alive at a time)
            {"name": "crosstalk-tcp", "pkg": "./c08", "run": "TestConcurrentConnections|TestPerConnection", "rapid_checks": 3000, "cpu": "1,2,4,16", "tiers": ("thorough",),
             "env": {"SSL_CERT_FILE": "$VERIF/harness/c08/testdata/upstream-root.pem"}, "shards": 8, "timeout": 7200},
            {"name": "race-tcp", "pkg": "./c08", "run": "TestConcurrentConnections|TestPerConnection", "race": True, "rapid_checks": 6000, "tiers": ("thorough",),
             "env": {"SSL_CERT_FILE": "$VERIF/harness/c08/testdata/upstream-root.pem"}, "shards": 8, "timeout": 7200},
            {"name": "crosstalk-udp", "pkg": "./c08", "run": "TestConcurrentUDPAssociations", "rapid_checks": 500, "cpu": "1,2,4,16", "tiers": ("thorough",),
             "shards": 8, "timeout": 7200},
            {"name": "race-udp", "pkg": "./c08", "run": "TestConcurrentUDPAssociations", "race": True, "rapid_checks": 1200, "tiers": ("thorough",),
             "shards": 8, "timeout": 7200},
        ],
    },
    "C03": {
        "rule": ("the proxy handler on real transports: downstream loopback TCP, Unix socket or TLS-terminated; 1-3 harness peers of one upstream over TCP, Unix sockets or TLS (the proxy dials with TLS); TLS "
                 "clients speak 1.3 or 1.2, and half of the latter send their last record and close_notify in one piece (end of stream read together with the last bytes); client and "
                 "peer payloads 0 .. 200 KB (thorough: 1 MiB) drawn log-style, chunk sizes 7 B .. whole, pauses; peers answer after the client's EOF (request/response over "
                 "half-close), at once and then half-close while they keep reading, or duplex; the client sends first or only after it has seen the upstreams' EOF; a matcher "
                 "prefetches 0-6000 bytes first; faults: client or one peer resets (SO_LINGER 0) at a generated offset. Peers use disjoint byte alphabets so that the "
                 "interleaving at the client can be split. Oracle: exact streams and EOF in both directions, handler returns, upstream connections closed, fd count restored; "
                 "fault cases: prefixes only, handler returns. Plus a datagram upstream (udp/): request out, 1-4 reply datagrams of 1 B..32 KiB back whole and in order; and an upstream "
                 "whose second peer refuses at first with retries configured: every connection opened to the first peer, also by the attempts given up, is closed when the handler has returned. Non-trivial = both directions non-empty with data sent after the other side's EOF, or >= 2 peers, or prefetched bytes."
                 " A quarter of the peers read slowly through a 4 KiB receive buffer, so that data is still in the proxy's socket when the relay ends."),
        "assumptions": ["interleavings of the relay goroutines are sampled", "downstreams without half-close (behind proxy_protocol/throttle, UDP) are outside the 'wherever the transport offers' clause"],
        "min_classes": {"quick": {"C03/tls": 40, "C03/unix": 40, "C03/fault": 20, "C03/half-close-with-data-after-eof": 60, "C03/peers/3": 20, "C03/prefetched": 40, "C03/upstream-tls": 40, "C03/tls12-close-with-last-record": 8, "C03/udp-upstream": 200, "C03/retried-attempts": 120}},
        "runs": [
            {"name": "relay", "pkg": "./c03", "run": "TestRelay|TestUDPUpstream", "rapid_checks": {"quick": 100, "thorough": 3000},
             "shards": {"quick": 4, "thorough": 16}, "timeout": {"quick": 600, "thorough": 7200}},
            # every case of this one lasts a few hundred milliseconds of real time (a peer that appears late): fewer cases
            {"name": "retries", "pkg": "./c03", "run": "TestRetriedAttemptsCloseTheirConnections", "rapid_checks": {"quick": 60, "thorough": 800},
             "shards": {"quick": 4, "thorough": 16}, "timeout": {"quick": 600, "thorough": 7200}},
        ],
    },
    "C11": {
        "tags": ["verif_proxy"],
        "rule": ("four generated real-time scenarios on the proxy handler loaded as a Caddy module, against loopback listeners the harness opens and closes (a closed port refuses at once): "
                 "(1) passive window: fail_duration 200-800 ms, max_fails 1-3 or omitted, histories of 3-14 connects/sleeps/bursts; the outcome of each connect and the failure counter are compared "
                 "with a model in which every remembered failure carries the interval in which it was counted ('too early' is final, 'too late' is given 2-3 s and dropped after a process stall); counters at rest; (2) retry window: try_duration 0-1 s, try_interval "
                 "50-250 ms, upstream stays down or comes back inside the window: duration bounds, last error, attempts spaced; (3) active checks: interval 50-100 ms, listener "
                 "toggled 2-6 times (in half of the cases while a proxied connection to the peer stays open and the peer only stops accepting), health flag follows within 3 intervals + 150 ms (+ 3 s patience); (4) connection limits 1-3 via max_connections or unhealthy_connection_count: histories of "
                 "opens and releases of held proxied connections (the limited upstream has one or two peers; an outage of its last peer makes a dial attempt fail half-way), which upstream accepted each. Non-trivial = a failure that expires or reaches max_fails, a non-zero try_duration, "
                 "any active/limit history; distinct = distinct (settings, history)."
                 " Retry cases whose upstream stays down also use max_fails 1 or 2 (the upstream leaves rotation during the retry window): the connection must still fail with the refused dial."),
        "assumptions": ["peer counters are read through an overlay export shim", "upper time bounds use slack >= 1 s and are dropped when the stall monitor saw the process held up for > 40 ms"],
        "min_classes": {"quick": {"C11/passive-window": 15, "C11/retry-window": 15, "C11/retry-after-upstream-left-rotation": 3, "C11/active-checks": 15, "C11/connection-limit": 15, "C11/reload-or-active-recovery": 10, "C11/active-checks-with-open-connection": 4}},
        "runs": [
            {"name": "health", "pkg": "./c11", "run": ".", "rapid_checks": {"quick": 5, "thorough": 180},
             "shards": {"quick": 6, "thorough": 16}, "timeout": {"quick": 600, "thorough": 7200}},
        ],
    },
    "C07": {
        "tags": ["verif_tls"],
        "rule": ("ClientHellos captured from real crypto/tls clients with generated configurations: server names (fixed list incl. long, punycode, upper case, underscores, a 64-byte label, IP literal, none; generated "
                 "FQDNs), 0-8 ALPN protocols (lengths up to 255), every min/max version pair 1.0-1.3, cipher-suite subsets, curve permutations, tickets on/off, resumption after a real "
                 "handshake with an in-process server (ticket / PSK extensions); one in three hellos is mutated at byte level with lengths kept consistent (GREASE/unknown extensions "
                 "inserted, extension order permuted, an extension dropped, a second non-host name in the SNI list plus padding) and kept only if crypto/tls's server still accepts it. "
                 "Oracle (differential): the same bytes go to a crypto/tls server whose GetConfigForClient captures ClientHelloInfo; parse result, MatchTLS verdict with generated sni/alpn "
                 "sub-matchers, placeholders, 'incomplete is undecided' and 'non-handshake never matches'; 2-12 such hellos are also matched at the same time, 5-40 rounds each, "
                 "by ONE matcher instance (as the connections of one route are) and each must get its own server name and verdict; and a tls matcher evaluated on the plaintext "
                 "of a terminated session (connection wrapped) must read the inner hello. Non-trivial = SNI and >= 1 ALPN protocol, or resumption, or a restricted "
                 "version range; distinct = distinct (hello bytes, matcher config)."
                 " Half of the mutated hellos carry record-header versions 3.0 .. 3.4."),
        "assumptions": ["a ClientHello split across several TLS records is out of scope (the matcher reads one record by design; crypto/tls never emits that below 16 KiB)",
                        "run with the default toolchain go1.23; hellos of a newer crypto/tls (post-quantum key shares) can be explored by running the thorough tier under go1.26.8"],
        "min_classes": {"quick": {"C07/resumption-hello": 30, "C07/mutated-grease": 15, "C07/record-header-version-3.0": 10, "C07/record-header-version-3.4": 5, "C07/mutated-permuted": 15, "C07/verdict/true": 80, "C07/verdict/false": 80, "C07/shared-matcher-concurrent": 100, "C07/inner-hello-after-termination": 100}},
        "runs": [
            {"name": "differential", "pkg": "./c07", "run": ".", "rapid_checks": {"quick": 120, "thorough": 20000},
             "shards": {"quick": 6, "thorough": 16}, "timeout": {"quick": 600, "thorough": 7200}},
            # the same differential with the newer toolchain's crypto/tls (larger, post-quantum key shares) on both sides
            {"name": "differential-go1.26", "pkg": "./c07", "run": ".", "go": "go1.26.8", "tiers": ("thorough",),
             "rapid_checks": {"thorough": 5000}, "shards": {"thorough": 16}, "timeout": {"thorough": 7200}},
        ],
    },
    "C15": {
        "rule": ("an abstract configuration tree generated from the grammar on the UnmarshalCaddyfile doc comments and printed twice, as Caddyfile text and as the JSON it is documented to "
                 "mean: 1-2 global layer4 blocks with 1-2 servers each (1-2 listen addresses in several forms), matching_timeout, 0-3 named matcher sets of 1-3 matchers (all 19 matchers "
                 "with their options, incl. the `private_ranges` shorthand and `!`-negated ranges of the ip matchers; inline and block forms; `not` nested up to 2), defined before or after the routes that name them and reused, routes with 1-3 handlers (all 9 handlers "
                 "with their options, proxy upstreams in every documented form incl. `upstream <addr> { dial ... }`; subroute and tee nested up to depth 2), and the listener-wrapper form inside `servers { listener_wrappers { layer4 {...} } }`. Oracle: adapter output "
                 "== expected JSON (as JSON values), adapting twice is byte-identical, the JSON provisions (tls app loaded, files not needed), JSON -> App/ListenerWrapper -> JSON "
                 "reproduces it. Non-trivial = nesting >= 2 (subroute/tee/not) and a named set used twice; distinct = distinct Caddyfile text."
                 " socks5 credentials with an empty user name, an empty password, several options."),
        "assumptions": ["options that need files (key files, CA pools, client certificates) are not generated",
                        "the expected JSON is written from the documentation of each option, not from the adapter's code"],
        "min_classes": {"quick": {"C15/listener-wrapper": 300, "C15/several-global-blocks": 200, "C15/named-set-reused": 200, "C15/uses/openvpn": 50, "C15/uses/tee": 100}},
        "runs": [
            {"name": "adapt", "pkg": "./c15", "run": ".", "rapid_checks": {"quick": 750, "thorough": 40000},
             "shards": {"quick": 1, "thorough": 16}, "timeout": {"quick": 600, "thorough": 7200}},
        ],
    },
    "C14": {
        "rule": ("per protocol a generator of complete first messages over the field ranges, single-field corruptions of them and filter configurations, each paired with the verdict the "
                 "wire definition and the matcher's documentation demand (must match / must not match / unspecified - the last is not judged): ssh, xmpp, postgres (SSLRequest, "
                 "StartupMessage v3/v2, parameters), socks4 (commands, ports, networks), socks5 (method lists vs auth_methods), proxy_protocol (v1/v2 signatures), regexp (pattern x "
                 "count), local_ip/remote_ip/not (CIDR sets incl. IPv6; IPv4 peers in 4- and 16-byte form), clock (windows, swapped bounds, 00:00:00 as end of day, fixed offsets and IANA zones; time injected through "
                 "l4.conn.wrap_time), dns (TCP/UDP framing, header flags, trailing bytes, allow/deny/regexp rules, default_deny, prefer_allow), rdp (cookie/token incl. port fields beyond 16 bits/custom x RDP_NEG_REQ x "
                 "correlation info x the five filters), wireguard (initiation/keepalive sizes, type, reserved bytes vs zero), openvpn (plain/auth/crypt hard resets signed with "
                 "generated keys, digests, replay ids, timestamps, modes; TCP and UDP), winbox (modes, user-name alphabet, key length, parity, filters), http (request line, "
                 "host/path/method/header sub-matchers, percent-escaped targets and queries, HTTP/2 prior knowledge). Non-trivial = a filtered or corrupted case with a specified verdict; distinct = distinct (config, message)."
                 " OpenVPN: group_key_direction in all spellings, tls-auth packets signed with either half of the key, tls-crypt independent of it."),
        "assumptions": ["where the definitions leave a case open (SOCKS5 greeting without methods, IPv4-mapped addresses, packets that can be read as another OpenVPN mode, free-form RDP routing info followed by odd bytes) the case is generated but not judged",
                        "regular expressions in generated configurations avoid brace quantifiers: Caddy replaces {...} placeholders before a pattern is compiled",
                        "OpenVPN messages are signed/encrypted with the module's own primitives (there is no second implementation offline); field-level rules are independent"],
        "min_classes": {"quick": {"C14/must-match": 4000, "C14/must-not-match": 4000, "C14/corrupted": 1500, "C14/dns": 900, "C14/rdp": 900, "C14/openvpn": 900, "C14/clock": 900}},
        "runs": [
            {"name": "reference", "pkg": "./c14", "run": ".", "rapid_checks": {"quick": 1000, "thorough": 150000},
             "shards": {"quick": 1, "thorough": 16}, "timeout": {"quick": 600, "thorough": 7200}},
        ],
    },
}
