"""Per-property run configuration for bin/vcheck.

runs: list of test-binary invocations; each has
  name, pkg (harness package), run (-test.run regex), rapid_checks {quick,thorough},
  shards {quick,thorough}, timeout {quick,thorough} (s), race, env, tiers, fuzz/fuzztime.
"""

CHECKS = {
    "C04": {
        "rule": ("inputs drawn per matcher/handler from: structure-aware generators that visit boundary values of every "
                 "length-bearing field while keeping lengths self-consistent, byte-level mutations and every-point truncations "
                 "of them, cross-protocol messages and uniform noise; 43 matcher configurations (TCP- and UDP-like) and 6 "
                 "handler chains through RouteList.Compile with generated segmentation. Non-trivial = not uniform noise; "
                 "distinct = distinct (target, input bytes, segmentation)."),
        "assumptions": [
            "allocation is measured as runtime.MemStats.TotalAlloc delta around one Match/Handle call in a single-goroutine process; limit 32 x MaxMatchingBytes (256 KiB), doubled for the crypto/tls handshake",
            "QUIC inputs are the Initial packets of the repository's own test plus synthetic long-header packets; no independent QUIC client is driven",
        ],
        "min_classes": {"quick": {"C04/mutated": 1000, "C04/truncated": 1000, "C04/well-formed-boundary": 3000},
                        "thorough": {"C04/mutated": 10000}},
        "runs": [
            {"name": "replay+rapid", "pkg": "./c04", "run": "TestReplay|TestMatchersNoPanicBoundedAlloc|TestHandlersNoPanicBoundedAlloc",
             "rapid_checks": {"quick": 1500, "thorough": 60000}, "shards": {"quick": 1, "thorough": 16},
             "timeout": {"quick": 600, "thorough": 7200}, "oom_is_violation": True},
            {"name": "fuzz", "pkg": "./c04", "fuzz": "FuzzMatchers", "fuzztime": {"thorough": "600s"}, "tiers": ("thorough",)},
        ],
    },
    "C18": {
        "rule": ("byte strings of every length 0..max+3 around each codec's size bounds (enumerated) plus rapid-drawn lengths with random and "
                 "structure-shaped content (valid opcode, consistent trailing length, chunked winbox bodies with surplus/missing bytes); "
                 "messages with fields over their full ranges for serialise-then-parse. 16 parser/serialiser pairs. Non-trivial = input "
                 "accepted (round trip exercised) or length within 3 of a bound; distinct = distinct (codec, bytes)."),
        "assumptions": ["winbox: no upper length bound is asserted (the protocol documents none); RDPToken/MessageTransport are variable-length by definition"],
        "min_classes": {"quick": {"C18/accepted": 5000, "C18/message-roundtrip": 1000}},
        "runs": [
            {"name": "replay+rapid", "pkg": "./c18", "run": ".", "rapid_checks": {"quick": 3000, "thorough": 200000},
             "shards": {"quick": 1, "thorough": 16}, "timeout": {"quick": 600, "thorough": 7200}},
            {"name": "fuzz", "pkg": "./c18", "fuzz": "FuzzCodecs", "fuzztime": {"thorough": "300s"}, "tiers": ("thorough",)},
        ],
    },
    "C06": {
        "rule": ("per stream-oriented matcher and filter configuration (28 targets): a first message from the protocol's structure-aware generator "
                 "(one in four byte-mutated), optionally followed by arbitrary trailing bytes; EVERY prefix length 0..len(stream) is evaluated on a fresh "
                 "connection through MatcherSet.Match. Non-trivial = whole message matches and the prefix verdicts form >= 3 regions, or a mutated stream "
                 "reaching 'no' after at least one 'need more'; distinct = distinct (matcher, config, stream)."),
        "assumptions": ["datagram matchers (quic, wireguard, UDP dns/openvpn) are out of scope of the fragmentation clauses", "yes -> no when trailing bytes arrive is allowed (dns, rdp, winbox, openvpn do it on purpose)"],
        "min_classes": {"quick": {"C06/full-match": 1500, "C06/mutated": 1000}},
        "runs": [
            {"name": "replay+rapid", "pkg": "./c06", "run": ".", "rapid_checks": {"quick": 400, "thorough": 40000},
             "shards": {"quick": 1, "thorough": 16}, "timeout": {"quick": 600, "thorough": 7200}},
        ],
    },
}
