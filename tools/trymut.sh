#!/bin/sh
# usage: tools/trymut.sh <patch.diff> <ID> [<ID>...]  -- apply a seeded change to /repo, run the quick checks, undo it.
patch="$1"; shift
cd /repo || exit 2
git diff --quiet || { echo "/repo is dirty"; exit 2; }
git apply "$patch" || { echo "patch does not apply"; exit 2; }
for id in "$@"; do
  out=$(cd /verif && VERIF_EVIDENCE_DIR=/verif/.build/evidence-changed-tree VERIF_SEED=${VERIF_SEED:-1} bin/vcheck "$id" quick 2>&1); rc=$?
  echo "== $id exit=$rc: $(echo "$out" | grep -E 'VIOLATION|INCONCLUSIVE|^OK|BUILD' | head -3 | tr '\n' ' ')"
done
git checkout -- . && git status --short
