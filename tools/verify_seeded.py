#!/usr/bin/env python3
"""Confirms each candidate seeded change in a scratch worktree of /repo (outside /repo and /verif):
 (a) its demonstration passes without the change, (b) with the change the project builds and the existing suite passes,
 (c) the demonstration fails with the change.  Confirmed ones are stored under /verif/seeded/<prop>-<X>/."""
import json, os, re, shutil, subprocess, sys
SRC = sys.argv[1] if len(sys.argv) > 1 else "/tmp/mut"
WT = os.environ.get("VS_WT", "/tmp/vs-worktree")
ENV = dict(os.environ, GOFLAGS="-mod=mod", GOPROXY="off", GOSUMDB="off", GOTOOLCHAIN="local")
only = sys.argv[2:]  # e.g. C02-A

def sh(cmd, cwd=WT, timeout=900):
    p = subprocess.run(cmd, cwd=cwd, env=ENV, shell=True, stdout=subprocess.PIPE, stderr=subprocess.STDOUT, text=True, timeout=timeout)
    return p.returncode, p.stdout

def clean():
    sh("git checkout -q -- . && git clean -fdq")

if not os.path.isdir(WT):
    rc, out = sh("git worktree add -q --detach %s HEAD" % WT, cwd="/repo")
    if rc: sys.exit("worktree: " + out)
else:
    sh("git checkout -q --detach $(git -C /repo rev-parse HEAD)")
clean()
head = sh("git rev-parse --short HEAD")[1].strip()
results = {}
for prop in sorted(os.listdir(SRC)):
    base = os.path.join(SRC, prop, "OUT")
    if not os.path.isdir(base): continue
    for x in sorted(os.listdir(base)):
        d = os.path.join(base, x)
        name = "%s-%s" % (prop, x)
        if not os.path.isfile(os.path.join(d, "patch.diff")): continue
        if only and name not in only: continue
        dp = open(os.path.join(d, "demo_path.txt")).read() if os.path.exists(os.path.join(d, "demo_path.txt")) else ""
        m = [p for p in re.findall(r"([\w./-]+_test\.go)", dp) if not p.startswith("OUT") and "/" in p and "demo_test.go" != os.path.basename(p)]
        cmdm = re.search(r"(go test [^\n`]*)", dp)
        if not m or not cmdm or not os.path.exists(os.path.join(d, "demo_test.go")):
            results[name] = {"ok": False, "why": "cannot parse demo_path.txt"}; print(name, results[name]); continue
        demo_dst, cmd = m[0], cmdm.group(1).strip()
        clean()
        r = {"head": head, "demo_path": demo_dst, "demo_cmd": cmd}
        shutil.copy(os.path.join(d, "demo_test.go"), os.path.join(WT, demo_dst))
        rc, out = sh(cmd); r["a_demo_passes_without_change"] = rc == 0
        os.remove(os.path.join(WT, demo_dst))
        rc, out = sh("git apply %s" % os.path.join(d, "patch.diff")); r["patch_applies"] = rc == 0
        if rc == 0:
            rc, out = sh("go build ./... && go test -vet=off -count=1 ./..."); r["b_suite_passes_with_change"] = rc == 0
            if rc: r["suite_tail"] = out[-800:]
            shutil.copy(os.path.join(d, "demo_test.go"), os.path.join(WT, demo_dst))
            rc, out = sh(cmd); r["c_demo_fails_with_change"] = rc != 0 and ("FAIL" in out)
            r["demo_fail_tail"] = out[-600:]
        r["ok"] = bool(r.get("a_demo_passes_without_change") and r.get("b_suite_passes_with_change") and r.get("c_demo_fails_with_change"))
        results[name] = r
        print(name, "OK" if r["ok"] else "REJECTED", {k: v for k, v in r.items() if k.startswith(("a_", "b_", "c_", "patch"))}, flush=True)
        if r["ok"]:
            dst = os.path.join("/verif/seeded", name)
            os.makedirs(dst, exist_ok=True)
            for f in ("patch.diff", "demo_test.go", "demo_path.txt"):
                shutil.copy(os.path.join(d, f), dst)
            try: meta = json.load(open(os.path.join(d, "meta.json")))
            except Exception: meta = {}
            meta["breaks_property"] = prop
            meta["confirmed"] = {k: r[k] for k in ("head", "demo_path", "demo_cmd", "a_demo_passes_without_change", "b_suite_passes_with_change", "c_demo_fails_with_change")}
            meta["confirmed"]["how"] = "tools/verify_seeded.py in scratch worktree %s (removed afterwards)" % WT
            json.dump(meta, open(os.path.join(dst, "meta.json"), "w"), indent=1)
clean()
json.dump(results, open("/tmp/verify_seeded_results.json", "w"), indent=1)
