#!/bin/sh
# Runs every claimed check's quick (or $1) tier on the current tree and validates MANIFEST + evidence files.
tier=${1:-quick}
cd /verif || exit 2
fail=0
for id in $(python3 -c "import json; print(' '.join(c['property_id'] for c in json.load(open('MANIFEST.json'))['checks']))"); do
  start=$(date +%s)
  out=$(VERIF_SEED=${VERIF_SEED:-1} bin/vcheck $id $tier 2>&1); rc=$?
  echo "$id rc=$rc $(( $(date +%s) - start ))s $(echo "$out" | grep -E 'OK|VIOLATION|INCONCLUSIVE|KNOWN' | head -2 | tr '\n' ' ')"
  [ $rc -ne 0 ] && fail=1
done
python3-vt - <<'PY' || fail=1
import json, jsonschema, sys
m = json.load(open('/verif/MANIFEST.json')); jsonschema.validate(m, json.load(open('/root/.vp/MANIFEST.schema.json')))
sch = json.load(open('/root/.vp/EVIDENCE.schema.json')); bad = 0
for c in m['checks']:
    try:
        jsonschema.validate(json.load(open(c['evidence_file'])), sch)
    except Exception as e:
        print("EVIDENCE INVALID", c['property_id'], str(e)[:200]); bad = 1
print("manifest+evidence valid" if not bad else "PROBLEMS"); sys.exit(bad)
PY
exit $fail
