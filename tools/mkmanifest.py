#!/usr/bin/env python3
"""Regenerates /verif/MANIFEST.json from the table below (kept in one place so that the manifest is always valid)."""
import json, os, sys
VERIF = os.path.dirname(os.path.dirname(os.path.abspath(__file__)))
props = [json.loads(l) for l in open(os.path.join(VERIF, "properties.jsonl"))]

# id -> (level text, level note (trusted base), technique)
CLAIMS = {
 "C04": ("Generated-input search with a no-panic / bounded-allocation oracle over all shipped matchers and parsing handlers: structure-aware boundary generators, mutations, truncations and (thorough) native coverage-guided fuzzing. Finds panics and allocation bombs reachable from a handful of bytes; cannot prove their absence.",
         "Go runtime allocation accounting (MemStats.TotalAlloc) is trusted; the harness calls the public MatcherSet.Match / RouteList.Compile paths on connections preloaded through an overlay-injected export shim.",
         "property-based testing (rapid) + coverage-guided fuzzing; recover()/allocation oracle"),
 "C18": ("Round-trip oracles in both directions over every exported wire codec: every length around each size bound is enumerated, rapid draws shaped and random contents and full-range messages, thorough adds native fuzzing. Exploration: a failing input is a counterexample, a pass is not a proof.",
         "An independent hand encoder for winbox chunking and encoding/binary for field layouts are trusted; field equality ignores non-serialised bookkeeping (digest pointers).",
         "property-based testing (rapid) + enumeration of lengths + fuzzing; round-trip oracle"),
 "C06": ("Metamorphic search over the prefix lattice of generated streams: every prefix of every stream is evaluated through the public matching path; oracles are zero network reads, verdict repeatability, an unchanged stream for later readers, monotonicity of 'no', and 'whole message matches => no proper prefix is rejected'. Exhaustive over split points per stream, sampled over streams. The same relation one level up: the real matchers behind the real router, one stream delivered whole and in generated fragmentations, must reach the same handler with the same bytes.",
         "A fresh Connection preloaded with the prefix (overlay export shim) stands for 'the bytes received so far'; the scripted underlying conn counts reads.",
         "property-based testing (rapid), metamorphic relation over all prefixes of each generated stream"),
 "C02": ("Bounded-exhaustive enumeration of route lists x streams x segmentations x end modes plus rapid-generated larger instances, each decided by a validity predicate over the recorded handler trace (route matched on the bytes available, order, no decided-matching route skipped, nothing after a terminal route, fallback exactly once with the stream intact, no fall-through or abandonment while a route is undecided). The small scope is complete for its bounds; beyond it the search is sampled.",
         "Harness matchers/handlers (pure functions of the available bytes; recording handlers) stand in for shipped ones so that the oracle can recompute verdicts; RouteList.Compile, the shipped `not` matcher and `subroute` handler are the code under test; virtual time for the matching deadline.",
         "bounded-exhaustive enumeration + property-based testing (rapid); trace validity predicate"),
 "C01": ("Model-based generated search: every case is a generated client stream, segmentation and route list whose expected per-handler byte ranges are computed by a reference consumer model; byte equality is required of every recorder, tee branch and echoed stream, through RouteList.Compile on scripted connections, behind real TLS termination and through Server.handle over loopback TCP. Sampled, not exhaustive.",
         "Harness recorder/take handlers and position-coded streams; crypto/tls as the client; the shipped tls, proxy_protocol, throttle, tee, subroute, echo handlers are under test together with Connection/Compile.",
         "property-based testing (rapid) against a reference consumer model"),
 "C10": ("Generated pool states and selection sequences (rapid, incl. a state machine with state changes between selections) plus an exhaustive sweep of availability vectors for small pools, judged against a reference availability set and the per-policy contracts (earliest, once-per-cycle, IP-stable under departures, fewest connections, membership); pools provisioned by the proxy handler from generated configurations are judged by the documented meaning of their limits and defaults.",
         "Upstream/peer state is constructed through an overlay-injected export shim in package l4proxy; random policies are judged on membership only, over repeated draws.",
         "property-based testing (rapid, stateful) + exhaustive availability vectors; reference-model oracle"),
 "C12": ("Generated PROXY v1/v2 headers from an independent encoder pushed through the handler with generated segmentation and allow lists; a recorder, ip matchers and placeholders behind it are compared with the declared (or real) addresses and the payload; the sending side is parsed by an independent parser on a loopback upstream, including the sender->receiver composition. Every header split point is enumerated for fixed addresses.",
         "Independent encoder/parser written from the HAProxy specification; github.com/mastercactapus/proxyprotocol is the library under the handler (its refusal of TLVs is accepted as fail-closed).",
         "property-based testing (rapid) + enumeration of split points; independent encoder/parser as reference"),
 "C16": ("Generated configurations and client negotiation scripts driven through the real SOCKS5 handler over loopback sockets; a safety oracle derived from the documented meaning of the configuration (enabled commands, usable credential pairs) decides whether an outbound connection, a success reply or a listener may appear at all.",
         "things-go/go-socks5 is the library under the handler; the loopback target listener and /proc/self/net/udp are the observers; timing only bounds how long replies are awaited (never a verdict).",
         "property-based testing (rapid) with a reference predicate over (configuration, session)"),
 "C17": ("Generated rate/burst/latency configurations and concurrent client behaviours through the real throttle handler; every underlying read is time-stamped and an invariant over that history (cumulative bytes <= burst + rate x elapsed, per connection and in total; latency respected; stream intact) is checked. Real time, one-sided assertions.",
         "golang.org/x/time/rate is the limiter under the handler; the wall clock is only used in the direction in which load cannot cause a false alarm.",
         "property-based testing (rapid); invariant over a time-stamped read history"),
 "C05": ("Generated timeouts, wall-clock phases, client schedules and route lists executed in real time on the TCP path (Server.handle) and on the UDP virtual connection; one-sided timing invariants (never early / bounded late), the buffer bound and fail-closed behaviour are checked per case. Sampled; timing upper bounds use generous slack and must reproduce.",
         "Real clock and scheduler; scripted TCP connection and harness-fed packetConn (overlay shim) instead of kernel sockets, so that silence, trickling and flooding are exact.",
         "property-based testing (rapid) over schedules, real-time invariants"),
 "C09": ("Stateful (model-based) generation of datagram/handler/idle/shutdown histories against the real servePacket loop on an in-memory PacketConn; invariants over the recorded deliveries, replies and associations (own client only, increasing sequence, no duplicates, replies to the right address, live association not replaced, served again after an association ended, clean shutdown) and no panic or wedge of the loop.",
         "The in-memory PacketConn fixes arrival order; the idle timeout constant is turned into a variable by a generated overlay of the current layer4/server.go (one token), nothing else in that file is altered; races between Close and the loop are sampled by volume.",
         "property-based testing (rapid state machine); history invariants"),
 "C13": ("Generated batches of mixed connections, consumer timings and close instants against the public listener-wrapper API on loopback sockets; each connection's fate (delivered once with its exact unconsumed stream and TLS state, or never delivered and closed), Accept's behaviour after Close and the absence of left-over listener goroutines are checked.",
         "Real sockets and scheduler; harness matchers/handlers select the fate of a connection from its first byte; goroutine leaks are detected by scanning runtime.Stack for layer4.(*listener) frames.",
         "property-based testing (rapid) over connection mixes and schedules; per-connection reference outcome"),
 "C08": ("Generated batches of simultaneous tagged connections through one shared configuration (all handlers and policies that keep shared state) on real loopback sockets at several GOMAXPROCS values, each connection compared with what it would get alone; the same workloads under the Go race detector, where any report with a caddy-l4 frame counts; likewise batches of simultaneous UDP clients on the servePacket loop, each of which may only ever be sent bytes of its own stream. Interleavings are sampled.",
         "The Go race detector (happens-before, only executed accesses) and the OS scheduler; tags in position-coded streams make cross-talk visible at a computable offset.",
         "property-based testing (rapid) of concurrent batches + dynamic race detection"),
 "C03": ("Generated payloads, chunkings, finish orders (who half-closes first, data after the other side's EOF), peer counts, transports and reset faults through the real proxy handler on loopback TCP / Unix sockets / TLS; every peer and the client are compared byte for byte with what was sent, end-of-stream, handler return, upstream close and file-descriptor restoration are observed with bounded waits.",
         "Kernel sockets and crypto/tls as transports; disjoint byte alphabets per peer to separate the interleaved client-side stream; bounded waits (10 s) stand for 'eventually'.",
         "property-based testing (rapid) with generated fault injection; exact-stream oracle"),
 "C11": ("Generated settings and histories (connects, sleeps, outages and recoveries, held connections) executed in real time against the proxy handler with loopback listeners that refuse or accept; a model of remembered failure times, retry-window bounds, active-check convergence and connection-limit occupancy is compared with outcomes and peer counters: 'too early' verdicts from interval bounds that load cannot falsify, 'too late' verdicts re-examined with patience and dropped when a stall monitor saw the process itself held up.",
         "Real clock (each remembered failure carries the interval in which it was counted; 2-3 s patience on lateness); peer counters through an overlay shim; a closed loopback port as an upstream that is down.",
         "property-based testing (rapid) over histories with fault injection; reference model of failure windows and limits"),
 "C07": ("Differential testing against crypto/tls: ClientHellos produced by real TLS clients under generated configurations (and byte-level mutations that crypto/tls still accepts) are given both to the module's parser/matcher and to Go's TLS server, whose ClientHelloInfo is the reference for server name, ALPN, versions, cipher suites, curves, points and signature schemes, for sni/alpn routing verdicts and for the placeholders; several hellos matched at the same time by one matcher instance must each get their own answer.",
         "crypto/tls (client as generator, server as reference) of the toolchain in use; caddytls' own sni matcher and the module's alpn matcher evaluated on the reference info; parseRawClientHello reached through an overlay export shim.",
         "property-based testing (rapid); differential oracle (crypto/tls server)"),
 "C15": ("Grammar-based generation of configurations with two independent printers (Caddyfile text, expected JSON) compared through the real caddyfile adapter; determinism of adapting, provisioning of the adapted JSON and the JSON load/serialise round trip are checked on the same configurations.",
         "Caddy's caddyfile adapter and httpcaddyfile global-option machinery; the expected JSON printer encodes the documented meaning of each option (an error there shows up as a false alarm, not as a missed defect).",
         "property-based testing (rapid) with a grammar-based generator; differential between two printers + round trip"),
 "C14": ("For each of the 15 matchers with a wire definition, generated complete messages, single-field corruptions and filter configurations are judged by an independent three-valued reference predicate written from the protocol definition and the matcher's documentation (must match / must not match / unspecified); two-sided where the definition speaks.",
         "The reference predicates are hand-written from the cited definitions (RFC 1928, SOCKS4, HAProxy PROXY protocol, RFC 1035 via miekg/dns for packing, [MS-RDPBCGR], WireGuard and OpenVPN packet layouts, module documentation); every disagreement was triaged against that text before it counted.",
         "property-based testing (rapid) against per-protocol reference predicates"),
}
NOT_YET = "check not built"

def chk(pid):
    text, note, tech = CLAIMS[pid]
    return {"property_id": pid, "quick_cmd": "bin/vcheck %s quick" % pid, "thorough_cmd": "bin/vcheck %s thorough" % pid,
            "evidence_file": "/verif/evidence/%s.json" % pid,
            "replay_cmd_template": "cat {path}  # the log holds the shrunk case, the rapid fail file and the command that re-runs it",
            "engine": "vcheck", "level_claimed": {"category": "exploration", "text": text, "design_ref": "DESIGN.md section 2, " + pid},
            "level_note": note, "technique": tech}

man = {"version": 1, "setup_cmd": "bin/setup",
 "hooks": {"guard": "verif",
           "enable": "go test -tags verif -overlay /verif/.build/overlay-<ID>.json: virtual files /repo/<pkg>/zz_verif_*.go mapped from /verif/overlay (export shims; those that reach into struct fields carry a second tag - verif_udp for C05, verif_proxy for C10/C11, verif_tls for C07 - so that only the checks needing them compile them); no source change in /repo",
           "baseline_off_cmd": "cd /repo && GOFLAGS=-mod=mod GOPROXY=off GOSUMDB=off go test -vet=off -count=1 ./...",
           "source_commits": [], "add_only": True},
 "engines": [{"name": "vcheck", "path": "/verif/bin/vcheck", "serves_properties": sorted(CLAIMS),
              "kind_free_text": "python driver: builds the Go harness module (pgregory.net/rapid v1.3.0, native go fuzzing) against /repo with -overlay, shards by seed, merges case statistics into the evidence file"}],
 "checks": [chk(p["id"]) for p in props if p["id"] in CLAIMS],
 "notes": "All checks rebuild from /repo's working tree on every invocation. Exit 0 held / 1 VIOLATION / 2 inconclusive (build failure, deadline, unhealthy generator). Known findings: /verif/known_findings.txt.",
 "not_applicable": [{"property_id": p["id"], "reason": NOT_YET} for p in props if p["id"] not in CLAIMS]}
json.dump(man, open(os.path.join(VERIF, "MANIFEST.json"), "w"), indent=1)
print("claimed:", sorted(CLAIMS))
