#!/usr/bin/env python3
"""Applies every seeded change under /verif/seeded to /repo in turn, runs the quick check of the property it breaks
(plus any extra checks named in meta.json 'also_checks'), undoes it, and writes /verif/seeded/RESULTS.json + RESULTS.md."""
import json, os, subprocess, sys, time
SEEDED = "/verif/seeded"
only = sys.argv[1:]
def sh(cmd, cwd="/repo"):
    p = subprocess.run(cmd, cwd=cwd, shell=True, stdout=subprocess.PIPE, stderr=subprocess.STDOUT, text=True)
    return p.returncode, p.stdout
if sh("git diff --quiet")[0] != 0:
    sys.exit("/repo is dirty")
results = {}
try:
    results = json.load(open(os.path.join(SEEDED, "RESULTS.json")))
except Exception:
    pass
head = sh("git rev-parse --short HEAD")[1].strip()
for name in sorted(os.listdir(SEEDED)):
    d = os.path.join(SEEDED, name)
    if not os.path.isdir(d) or (only and name not in only):
        continue
    meta = json.load(open(os.path.join(d, "meta.json")))
    if meta.get("obsolete"):
        results[name] = {"status": "obsolete", "why": meta["obsolete"]}
        continue
    prop = meta.get("breaks_property", name.split("-")[0])
    rc, out = sh("git apply --check %s" % os.path.join(d, "patch.diff"))
    if rc != 0:
        results[name] = {"status": "does-not-apply", "head": head, "detail": out.strip()[-300:]}
        print(name, "DOES NOT APPLY", flush=True)
        continue
    sh("git apply %s" % os.path.join(d, "patch.diff"))
    r = {"head": head, "checks": {}}
    try:
        for chk in [prop] + meta.get("also_checks", []):
            t0 = time.time()
            rc, out = sh("VERIF_EVIDENCE_DIR=/verif/.build/evidence-changed-tree VERIF_SEED=1 bin/vcheck %s quick" % chk, cwd="/verif")
            keys = sorted(set(l.split("key=")[1].split()[0] for l in out.splitlines() if "VERIF-FINDING" in l and "key=" in l))
            r["checks"][chk] = {"exit": rc, "wall_s": round(time.time() - t0, 1), "finding_keys": keys[:6]}
    finally:
        sh("git checkout -- .")
    r["status"] = "detected" if any(c["exit"] == 1 for c in r["checks"].values()) else "MISSED"
    results[name] = r
    print(name, r["status"], {k: v["exit"] for k, v in r["checks"].items()}, flush=True)
json.dump(results, open(os.path.join(SEEDED, "RESULTS.json"), "w"), indent=1, sort_keys=True)
with open(os.path.join(SEEDED, "RESULTS.md"), "w") as f:
    f.write("# Seeded changes versus the quick checks\n\n| seeded change | breaks | what it does | needs | result |\n|---|---|---|---|---|\n")
    for name in sorted(results):
        try:
            meta = json.load(open(os.path.join(SEEDED, name, "meta.json")))
        except Exception:
            meta = {}
        r = results[name]
        res = r["status"]
        if "checks" in r:
            res += " (" + ", ".join("%s: exit %d%s" % (k, v["exit"], (" " + "/".join(v["finding_keys"][:2])) if v["finding_keys"] else "") for k, v in r["checks"].items()) + ")"
        f.write("| %s | %s | %s | %s | %s |\n" % (name, meta.get("breaks_property", ""), str(meta.get("summary", ""))[:160].replace("|", "/").replace("\n", " "),
                                                   str(meta.get("needs", ""))[:160].replace("|", "/").replace("\n", " "), res))
print("written")
